//go:build verif

package tmi

// Projection of the kernel state for the /verif conformance harness.
// Overlaid into the package by `go test -overlay`; not part of gordian.

import (
	"sync"

	"github.com/gordian-engine/gordian/gcrypto"
	"github.com/gordian-engine/gordian/tm/tmconsensus"
)

// VerifView is a deep copy of the parts of a VersionedRoundView the harness looks at.
type VerifView struct {
	VRV tmconsensus.VersionedRoundView // Clone()d
}

type VerifSMOut struct {
	None        bool
	HasVRV      bool
	H           uint64
	R           uint32
	Ver         uint32
	HasJump     bool
	JH          uint64
	JR          uint32
	SentVersion uint32
}

type VerifGossipOut struct {
	None                 bool
	C, V, N, NilVoted    bool
	RoundSessionChanges  int
}

// VerifKState is the snapshot handed to the harness at each kernel trace point.
type VerifKState struct {
	Ev  string
	Seq uint64

	C, V, N tmconsensus.VersionedRoundView
	CH      tmconsensus.Header

	InFlight []string

	SMReH, SMOutH       uint64
	SMReR, SMOutR       uint32
	SMLastSent, SMOutVer uint32
	SMHasJump           bool
	SMJumpH             uint64
	SMJumpR             uint32
	SMHasActions        bool
	SMPubKey            gcrypto.PubKey

	SMOut VerifSMOut
	GSOut VerifGossipOut

	NilVoted *tmconsensus.VersionedRoundView
}

var (
	verifMu   sync.Mutex
	verifSubs = map[*Kernel]func(*VerifKState){}
	verifAny  func(*Kernel, *VerifKState)
	verifSeq  = map[*Kernel]uint64{}
)

// VerifSubscribe registers cb for events of kernel k (nil k: all kernels not otherwise subscribed).
func VerifSubscribe(k *Kernel, cb func(*VerifKState)) {
	verifMu.Lock()
	defer verifMu.Unlock()
	verifSubs[k] = cb
	verifKernelHook = verifDispatch
}

// VerifSubscribeAll registers a callback for every kernel (used before the kernel pointer is known).
func VerifSubscribeAll(cb func(*Kernel, *VerifKState)) {
	verifMu.Lock()
	defer verifMu.Unlock()
	verifAny = cb
	verifKernelHook = verifDispatch
}

func VerifUnsubscribe(k *Kernel) {
	verifMu.Lock()
	defer verifMu.Unlock()
	delete(verifSubs, k)
	delete(verifSeq, k)
}

func verifDispatch(k *Kernel, ev string, s *kState) {
	verifMu.Lock()
	cb := verifSubs[k]
	anyCb := verifAny
	verifSeq[k]++
	seq := verifSeq[k]
	verifMu.Unlock()
	if cb == nil && anyCb == nil {
		return
	}
	st := verifProject(ev, s)
	st.Seq = seq
	if cb != nil {
		cb(st)
	} else {
		anyCb(k, st)
	}
}

func verifProject(ev string, s *kState) *VerifKState {
	st := &VerifKState{
		Ev: ev,
		C:  s.Committing.Clone(), V: s.Voting.Clone(), N: s.NextRound.Clone(),
		CH: s.CommittingHeader,
	}
	for h := range s.InFlightFetchPHs {
		st.InFlight = append(st.InFlight, h)
	}
	m := &s.StateMachineViewManager
	st.SMReH, st.SMReR = m.roundEntrance.H, m.roundEntrance.R
	st.SMLastSent = m.lastSentVersion
	st.SMOutH, st.SMOutR, st.SMOutVer = m.outgoingView.Height, m.outgoingView.Round, m.outgoingView.Version
	if m.jumpAhead != nil {
		st.SMHasJump, st.SMJumpH, st.SMJumpR = true, m.jumpAhead.Height, m.jumpAhead.Round
	}
	st.SMHasActions = m.roundEntrance.Actions != nil
	st.SMPubKey = m.roundEntrance.PubKey

	so := m.Output(s)
	if so.Ch == nil {
		st.SMOut.None = true
	} else {
		st.SMOut.SentVersion = so.sentVersion
		if so.Val.VRV.Height != 0 {
			st.SMOut.HasVRV = true
			st.SMOut.H, st.SMOut.R, st.SMOut.Ver = so.Val.VRV.Height, so.Val.VRV.Round, so.Val.VRV.Version
		}
		if so.Val.JumpAheadRoundView != nil {
			st.SMOut.HasJump = true
			st.SMOut.JH, st.SMOut.JR = so.Val.JumpAheadRoundView.Height, so.Val.JumpAheadRoundView.Round
		}
	}
	g := &s.GossipViewManager
	gout := g.Output()
	if gout.Ch == nil {
		st.GSOut.None = true
	} else {
		st.GSOut.C = gout.Val.Committing != nil
		st.GSOut.V = gout.Val.Voting != nil
		st.GSOut.N = gout.Val.NextRound != nil
		st.GSOut.NilVoted = gout.Val.NilVotedRound != nil
		st.GSOut.RoundSessionChanges = len(gout.Val.RoundSessionChanges)
	}
	if g.NilVotedRound != nil {
		c := g.NilVotedRound.Clone()
		st.NilVoted = &c
	}
	return st
}
