package tmmirror

// Rig: one real Mirror on recording in-memory stores, with the harness playing every
// environment role (state machine, gossip reader, lag reader, header fetcher, driver).
// Overlaid into /repo by /verif/bin/check; not part of gordian.

import (
	"context"
	"fmt"
	"io"
	"log/slog"
	"sync"
	"time"

	"github.com/gordian-engine/gordian/gassert/gasserttest"
	"github.com/gordian-engine/gordian/gcrypto"
	"github.com/gordian-engine/gordian/gwatchdog"
	vc "github.com/gordian-engine/gordian/internal/verifcommon"
	"github.com/gordian-engine/gordian/tm/tmconsensus"
	"github.com/gordian-engine/gordian/tm/tmengine/internal/tmeil"
	"github.com/gordian-engine/gordian/tm/tmengine/internal/tmmirror/internal/tmi"
	"github.com/gordian-engine/gordian/tm/tmengine/tmelink"
	"github.com/gordian-engine/gordian/tm/tmstore"
	"github.com/gordian-engine/gordian/tm/tmstore/tmmemstore"
)

// ---------------------------------------------------------------- recording stores

type memStores struct {
	ms *tmmemstore.MirrorStore
	rs *tmmemstore.RoundStore
	hs *tmmemstore.CommittedHeaderStore
	vs *tmmemstore.ValidatorStore
}

func newMemStores(hsch tmconsensus.HashScheme) *memStores {
	return &memStores{
		ms: tmmemstore.NewMirrorStore(),
		rs: tmmemstore.NewRoundStore(),
		hs: tmmemstore.NewCommittedHeaderStore(),
		vs: tmmemstore.NewValidatorStore(hsch),
	}
}

type hr struct {
	H uint64
	R uint32
}

// recStores wraps memStores; every successful mutating call is appended to log
// (validator store writes are applied but are not crash points).
type recStores struct {
	mu  sync.Mutex
	cur *memStores
	log []func(*memStores)
	// base: contents the stores had before the run (always survive a truncation)
	base []func(*memStores)
	// hold: when armed, the next vote write of the round store announces itself on holdReached and waits for holdRelease
	// (the kernel is then inside its add-vote request: the point at which a caller may give up)
	holdMu      sync.Mutex
	holdArmed   bool
	holdReached chan struct{}
	holdRelease chan struct{}
	// crash-relevant writes only (index into log)
	points []int
	rounds map[hr]struct{}
	// every header ever saved per height, to see overwrites even if later reverted
	hdrSaves map[uint64][]string
	// every vote collection ever written to the round store (at is the length of log right after the write), so that a
	// later write that drops persisted signatures is seen at the next restart (C10 PersistedVotesReloaded)
	voteWrites []voteWrite
}

type voteWrite struct {
	at   int
	h    uint64
	r    uint32
	kind string
	ssc  tmconsensus.SparseSignatureCollection
}

// everVotes: the union of all signatures that were ever durably written for (h, r, kind), per block hash.
func (r *recStores) everVotes(h uint64, rd uint32, kind string) map[string][]gcrypto.SparseSignature {
	r.mu.Lock()
	defer r.mu.Unlock()
	out := map[string][]gcrypto.SparseSignature{}
	seen := map[string]struct{}{}
	for _, w := range r.voteWrites {
		if w.h != h || w.r != rd || w.kind != kind {
			continue
		}
		for hash, sigs := range w.ssc.BlockSignatures {
			for _, sg := range sigs {
				key := hash + "|" + string(sg.KeyID) + "|" + string(sg.Sig)
				if _, ok := seen[key]; ok {
					continue
				}
				seen[key] = struct{}{}
				out[hash] = append(out[hash], sg)
			}
		}
	}
	return out
}

func newRecStores(h tmconsensus.HashScheme) *recStores {
	return &recStores{cur: newMemStores(h), rounds: map[hr]struct{}{}, hdrSaves: map[uint64][]string{}}
}

func (r *recStores) record(f func(*memStores), point bool) {
	r.log = append(r.log, f)
	if point {
		r.points = append(r.points, len(r.log))
	}
}

// nPoints is the number of crash-relevant writes so far.
func (r *recStores) nPoints() int {
	r.mu.Lock()
	defer r.mu.Unlock()
	return len(r.points)
}

// rebuild returns fresh stores holding exactly the first n crash-relevant writes
// (and every validator-store write that preceded the n-th of them).
func (r *recStores) rebuild(h tmconsensus.HashScheme, n int) *recStores {
	r.mu.Lock()
	defer r.mu.Unlock()
	upto := 0
	if n > 0 {
		upto = r.points[n-1]
	}
	out := newRecStores(h)
	for _, f := range r.base {
		f(out.cur)
	}
	out.base = r.base
	for i := 0; i < upto; i++ {
		r.log[i](out.cur)
	}
	out.log = append(out.log, r.log[:upto]...)
	out.points = append(out.points, r.points[:n]...)
	for k := range r.rounds {
		out.rounds[k] = struct{}{}
	}
	for _, w := range r.voteWrites {
		if w.at <= upto {
			out.voteWrites = append(out.voteWrites, w)
		}
	}
	return out
}

type recMirrorStore struct{ r *recStores }

func (s recMirrorStore) SetNetworkHeightRound(ctx context.Context, vh uint64, vr uint32, ch uint64, cr uint32) error {
	s.r.mu.Lock()
	defer s.r.mu.Unlock()
	err := s.r.cur.ms.SetNetworkHeightRound(ctx, vh, vr, ch, cr)
	if err == nil {
		s.r.record(func(m *memStores) { _ = m.ms.SetNetworkHeightRound(context.Background(), vh, vr, ch, cr) }, true)
	}
	return err
}
func (s recMirrorStore) NetworkHeightRound(ctx context.Context) (uint64, uint32, uint64, uint32, error) {
	return s.r.cur.ms.NetworkHeightRound(ctx)
}

type recRoundStore struct{ r *recStores }

func (s recRoundStore) SaveRoundProposedHeader(ctx context.Context, ph tmconsensus.ProposedHeader) error {
	s.r.mu.Lock()
	defer s.r.mu.Unlock()
	err := s.r.cur.rs.SaveRoundProposedHeader(ctx, ph)
	if err == nil {
		s.r.rounds[hr{ph.Header.Height, ph.Round}] = struct{}{}
		s.r.record(func(m *memStores) { _ = m.rs.SaveRoundProposedHeader(context.Background(), ph) }, true)
	}
	return err
}
func (s recRoundStore) SaveRoundReplayedHeader(ctx context.Context, h tmconsensus.Header) error {
	s.r.mu.Lock()
	defer s.r.mu.Unlock()
	err := s.r.cur.rs.SaveRoundReplayedHeader(ctx, h)
	if err == nil {
		s.r.record(func(m *memStores) { _ = m.rs.SaveRoundReplayedHeader(context.Background(), h) }, true)
	}
	return err
}
func cloneSSC(p tmconsensus.SparseSignatureCollection) tmconsensus.SparseSignatureCollection {
	out := tmconsensus.SparseSignatureCollection{PubKeyHash: append([]byte(nil), p.PubKeyHash...)}
	if p.BlockSignatures != nil {
		out.BlockSignatures = make(map[string][]gcrypto.SparseSignature, len(p.BlockSignatures))
		for k, v := range p.BlockSignatures {
			c := make([]gcrypto.SparseSignature, len(v))
			for i, s := range v {
				c[i] = gcrypto.SparseSignature{KeyID: append([]byte(nil), s.KeyID...), Sig: append([]byte(nil), s.Sig...)}
			}
			out.BlockSignatures[k] = c
		}
	}
	return out
}
// armHold makes the next vote write block; it returns the channels to watch and to release.
func (r *recStores) armHold() (reached <-chan struct{}, release chan<- struct{}) {
	r.holdMu.Lock()
	defer r.holdMu.Unlock()
	r.holdArmed = true
	r.holdReached = make(chan struct{})
	r.holdRelease = make(chan struct{})
	return r.holdReached, r.holdRelease
}

func (r *recStores) disarmHold() {
	r.holdMu.Lock()
	r.holdArmed = false
	r.holdMu.Unlock()
}

func (r *recStores) waitHold() {
	r.holdMu.Lock()
	if !r.holdArmed {
		r.holdMu.Unlock()
		return
	}
	r.holdArmed = false
	reached, release := r.holdReached, r.holdRelease
	r.holdMu.Unlock()
	close(reached)
	<-release
}

func (s recRoundStore) OverwriteRoundPrevoteProofs(ctx context.Context, h uint64, r uint32, p tmconsensus.SparseSignatureCollection) error {
	s.r.waitHold()
	s.r.mu.Lock()
	defer s.r.mu.Unlock()
	pc := cloneSSC(p)
	err := s.r.cur.rs.OverwriteRoundPrevoteProofs(ctx, h, r, pc)
	if err == nil {
		s.r.rounds[hr{h, r}] = struct{}{}
		s.r.record(func(m *memStores) { _ = m.rs.OverwriteRoundPrevoteProofs(context.Background(), h, r, cloneSSC(pc)) }, true)
		s.r.voteWrites = append(s.r.voteWrites, voteWrite{at: len(s.r.log), h: h, r: r, kind: "prevote", ssc: cloneSSC(pc)})
	}
	return err
}
func (s recRoundStore) OverwriteRoundPrecommitProofs(ctx context.Context, h uint64, r uint32, p tmconsensus.SparseSignatureCollection) error {
	s.r.waitHold()
	s.r.mu.Lock()
	defer s.r.mu.Unlock()
	pc := cloneSSC(p)
	err := s.r.cur.rs.OverwriteRoundPrecommitProofs(ctx, h, r, pc)
	if err == nil {
		s.r.rounds[hr{h, r}] = struct{}{}
		s.r.record(func(m *memStores) { _ = m.rs.OverwriteRoundPrecommitProofs(context.Background(), h, r, cloneSSC(pc)) }, true)
		s.r.voteWrites = append(s.r.voteWrites, voteWrite{at: len(s.r.log), h: h, r: r, kind: "precommit", ssc: cloneSSC(pc)})
	}
	return err
}
func (s recRoundStore) LoadRoundState(ctx context.Context, h uint64, r uint32) ([]tmconsensus.ProposedHeader, tmconsensus.SparseSignatureCollection, tmconsensus.SparseSignatureCollection, error) {
	return s.r.cur.rs.LoadRoundState(ctx, h, r)
}

type recHeaderStore struct{ r *recStores }

func (s recHeaderStore) SaveCommittedHeader(ctx context.Context, ch tmconsensus.CommittedHeader) error {
	s.r.mu.Lock()
	defer s.r.mu.Unlock()
	err := s.r.cur.hs.SaveCommittedHeader(ctx, ch)
	if err == nil {
		s.r.hdrSaves[ch.Header.Height] = append(s.r.hdrSaves[ch.Header.Height], string(ch.Header.Hash))
		s.r.record(func(m *memStores) { _ = m.hs.SaveCommittedHeader(context.Background(), ch) }, true)
	}
	return err
}
func (s recHeaderStore) LoadCommittedHeader(ctx context.Context, h uint64) (tmconsensus.CommittedHeader, error) {
	return s.r.cur.hs.LoadCommittedHeader(ctx, h)
}

type recValidatorStore struct{ r *recStores }

func (s recValidatorStore) SavePubKeys(ctx context.Context, keys []gcrypto.PubKey) (string, error) {
	s.r.mu.Lock()
	defer s.r.mu.Unlock()
	h, err := s.r.cur.vs.SavePubKeys(ctx, keys)
	if err == nil {
		s.r.record(func(m *memStores) { _, _ = m.vs.SavePubKeys(context.Background(), keys) }, false)
	}
	return h, err
}
func (s recValidatorStore) SaveVotePowers(ctx context.Context, pows []uint64) (string, error) {
	s.r.mu.Lock()
	defer s.r.mu.Unlock()
	h, err := s.r.cur.vs.SaveVotePowers(ctx, pows)
	if err == nil {
		s.r.record(func(m *memStores) { _, _ = m.vs.SaveVotePowers(context.Background(), pows) }, false)
	}
	return h, err
}
func (s recValidatorStore) LoadPubKeys(ctx context.Context, hash string) ([]gcrypto.PubKey, error) {
	return s.r.cur.vs.LoadPubKeys(ctx, hash)
}
func (s recValidatorStore) LoadVotePowers(ctx context.Context, hash string) ([]uint64, error) {
	return s.r.cur.vs.LoadVotePowers(ctx, hash)
}
func (s recValidatorStore) LoadValidators(ctx context.Context, keyHash, powHash string) ([]tmconsensus.Validator, error) {
	return s.r.cur.vs.LoadValidators(ctx, keyHash, powHash)
}

var (
	_ tmstore.MirrorStore          = recMirrorStore{}
	_ tmstore.RoundStore           = recRoundStore{}
	_ tmstore.CommittedHeaderStore = recHeaderStore{}
	_ tmstore.ValidatorStore       = recValidatorStore{}
)

// ---------------------------------------------------------------- rig

// concCall is one Handle*Proofs call that the concurrency driver parks between its two phases.
type concCall struct {
	done    chan string   // result name, sent when the call returns
	atGate  chan struct{} // signalled every time the call reaches the gate after its view lookup
	release chan struct{} // the driver lets it continue
	cancel  context.CancelFunc
}

type rig struct {
	// concurrency driver: the call that is currently being driven towards the gate (nil: calls pass the gate freely)
	gateMu    sync.Mutex
	gateOwner *concCall
	calls     map[int]*concCall
	syncD     time.Duration // bound of the next sync (0: default)

	w *vc.World

	stores *recStores

	ctx    context.Context
	cancel context.CancelFunc
	wd     *gwatchdog.Watchdog

	m *Mirror

	smEntrance chan tmeil.StateMachineRoundEntrance
	smViewOut  chan tmeil.StateMachineRoundView
	gossipOut  chan tmelink.NetworkViewUpdate
	lagOut     chan tmelink.LagState
	replayIn   chan tmelink.ReplayedHeaderRequest
	fetchReqs  chan tmelink.ProposedHeaderFetchRequest
	fetched    chan tmconsensus.ProposedHeader

	smActions chan tmeil.StateMachineRoundAction
	smHC      chan struct{}
	smPub     int

	evMu   sync.Mutex
	evCond *sync.Cond
	last   *tmi.VerifKState
	counts map[string]int
}

func newRig(w *vc.World, stores *recStores) *rig {
	r := &rig{w: w, stores: stores, counts: map[string]int{}}
	r.evCond = sync.NewCond(&r.evMu)
	return r
}

var quietLog = slog.New(slog.NewTextHandler(io.Discard, nil))

// start constructs the Mirror (NewMirror may return an error or panic; both are reported).
func (r *rig) start() (err error) {
	r.smEntrance = make(chan tmeil.StateMachineRoundEntrance)
	r.smViewOut = make(chan tmeil.StateMachineRoundView)
	r.gossipOut = make(chan tmelink.NetworkViewUpdate)
	r.lagOut = make(chan tmelink.LagState)
	r.replayIn = make(chan tmelink.ReplayedHeaderRequest)
	r.fetchReqs = make(chan tmelink.ProposedHeaderFetchRequest, 64)
	r.fetched = make(chan tmconsensus.ProposedHeader, 8)
	r.smActions, r.smHC, r.smPub = nil, nil, 0

	ctx, cancel := context.WithCancel(context.Background())
	wd, wctx := gwatchdog.NewNopWatchdog(ctx, quietLog)
	r.ctx, r.cancel, r.wd = wctx, cancel, wd
	r.calls = map[int]*concCall{}
	VerifSetGate(r.gate)

	tmi.VerifSubscribeAll(func(_ *tmi.Kernel, st *tmi.VerifKState) {
		r.evMu.Lock()
		r.last = st
		r.counts[st.Ev]++
		r.evCond.Broadcast()
		r.evMu.Unlock()
	})

	cfg := MirrorConfig{
		Store:                recMirrorStore{r.stores},
		CommittedHeaderStore: recHeaderStore{r.stores},
		RoundStore:           recRoundStore{r.stores},
		ValidatorStore:       recValidatorStore{r.stores},

		InitialHeight:       1,
		InitialValidatorSet: r.w.Valsets[r.w.Def.Genesis],

		HashScheme:                        r.w.HashScheme,
		SignatureScheme:                   r.w.SigScheme,
		CommonMessageSignatureProofScheme: r.w.CMSP,

		ProposedHeaderFetcher: tmelink.ProposedHeaderFetcher{
			FetchRequests:          r.fetchReqs,
			FetchedProposedHeaders: r.fetched,
		},

		ReplayedHeadersIn: r.replayIn,
		GossipStrategyOut: r.gossipOut,
		LagStateOut:       r.lagOut,

		StateMachineRoundEntranceIn: r.smEntrance,
		StateMachineRoundViewOut:    r.smViewOut,

		Watchdog:  wd,
		AssertEnv: gasserttest.DefaultEnv(),
	}
	defer func() {
		if p := recover(); p != nil {
			err = fmt.Errorf("PANIC in NewMirror: %v", p)
		}
	}()
	m, e := NewMirror(wctx, quietLog, cfg)
	if e != nil {
		return e
	}
	r.m = m
	return nil
}

// gate is installed as the Mirror's verifGate hook.
func (r *rig) gate(point string) {
	if point != "Prevote:afterLookup" && point != "Precommit:afterLookup" && point != "PH:afterCheck" {
		return
	}
	r.gateMu.Lock()
	cc := r.gateOwner
	r.gateOwner = nil
	r.gateMu.Unlock()
	if cc == nil {
		return
	}
	cc.atGate <- struct{}{}
	<-cc.release
}

// releaseParked lets every parked call run to its end (used before the rig is stopped).
func (r *rig) releaseParked() {
	for c, cc := range r.calls {
		cc.cancel()
		close(cc.release)
		select {
		case <-cc.done:
		case <-time.After(2 * time.Second):
		}
		delete(r.calls, c)
	}
}

func (r *rig) stop() {
	r.releaseParked()
	if r.cancel != nil {
		r.cancel()
	}
	if r.m != nil {
		// a kernel that is blocked for good (the property violation "stopped serving") never returns from Wait:
		// it is abandoned after a bound so that the remaining behaviours are still replayed
		m := r.m
		done := make(chan struct{})
		go func() { m.Wait(); close(done) }()
		select {
		case <-done:
		case <-time.After(3 * time.Second):
		}
		r.m = nil
	}
	if r.wd != nil {
		wd := r.wd
		done := make(chan struct{})
		go func() { wd.Wait(); close(done) }()
		select {
		case <-done:
		case <-time.After(3 * time.Second):
		}
	}
}

func (r *rig) count(ev string) int {
	r.evMu.Lock()
	defer r.evMu.Unlock()
	return r.counts[ev]
}

// waitCount waits until the kernel has emitted more than n events named ev.
func (r *rig) waitCount(ev string, n int, d time.Duration) bool {
	deadline := time.Now().Add(d)
	r.evMu.Lock()
	defer r.evMu.Unlock()
	for r.counts[ev] <= n {
		if time.Now().After(deadline) {
			return false
		}
		t := time.AfterFunc(50*time.Millisecond, func() { r.evMu.Lock(); r.evCond.Broadcast(); r.evMu.Unlock() })
		r.evCond.Wait()
		t.Stop()
	}
	return true
}

// sync makes the kernel serve one snapshot request: when it returns, every request the
// kernel accepted before it has been fully handled, and r.last is the state after it.
func (r *rig) sync() (*tmi.VerifKState, bool) {
	d := 10 * time.Second
	if r.syncD != 0 {
		d, r.syncD = r.syncD, 0
	}
	n := r.count("Snapshot")
	var v tmconsensus.VersionedRoundView
	ctx, cancel := context.WithTimeout(r.ctx, d)
	defer cancel()
	if err := r.m.VotingView(ctx, &v); err != nil {
		return nil, false
	}
	if !r.waitCount("Snapshot", n, d) {
		return nil, false
	}
	r.evMu.Lock()
	defer r.evMu.Unlock()
	return r.last, true
}

func (r *rig) drainFetch() [][2]string {
	out := [][2]string{}
	for {
		select {
		case req := <-r.fetchReqs:
			out = append(out, [2]string{fmt.Sprint(req.Height), r.w.Label(req.BlockHash)})
		default:
			return out
		}
	}
}
