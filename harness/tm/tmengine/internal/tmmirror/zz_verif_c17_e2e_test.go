package tmmirror_test

// C17 end-to-end witness (overlaid into /repo/tm/tmengine/internal/tmmirror by /verif/bin/check).
//
// Chatty.tla's environment assumes that the mirror accepts a second vote of a validator for a
// different target (equivocation) and hands the grown view to the gossip strategy.  This test checks
// that assumption on the REAL Mirror wired to the REAL ChattyStrategy (the same wiring as
// tmengine.New: one unbuffered NetworkViewUpdate channel), and observes whether the equivocating
// signature is offered to the broadcaster.  No timing is used to judge the strategy: a tee between
// mirror and strategy forwards each update and uses an extra "session changes only" update as a
// barrier (the strategy accepts it only after it finished broadcasting for the previous one).

import (
	"bytes"
	"context"
	"io"
	"log/slog"
	"testing"
	"time"

	"github.com/gordian-engine/gordian/gcrypto"
	vc "github.com/gordian-engine/gordian/internal/verifcommon"
	"github.com/gordian-engine/gordian/tm/tmconsensus"
	"github.com/gordian-engine/gordian/tm/tmengine/internal/tmmirror/tmmirrortest"
	"github.com/gordian-engine/gordian/tm/tmengine/tmelink"
	"github.com/gordian-engine/gordian/tm/tmgossip"
)

type c17e2eRec struct {
	ph chan tmconsensus.ProposedHeader
	pv chan tmconsensus.PrevoteSparseProof
	pc chan tmconsensus.PrecommitSparseProof
}

func (r *c17e2eRec) OutgoingProposedHeaders() chan<- tmconsensus.ProposedHeader { return r.ph }
func (r *c17e2eRec) OutgoingPrevoteProofs() chan<- tmconsensus.PrevoteSparseProof { return r.pv }
func (r *c17e2eRec) OutgoingPrecommitProofs() chan<- tmconsensus.PrecommitSparseProof {
	return r.pc
}

type c17e2eSnap struct {
	updates  []tmelink.NetworkViewUpdate
	prevotes []tmconsensus.PrevoteSparseProof
	precs    []tmconsensus.PrecommitSparseProof
	ok       bool
}

func TestVerifC17E2E(t *testing.T) {
	out := vc.Open("VERIF_OUT")
	defer out.Close()

	ctx, cancel := context.WithCancel(context.Background())
	defer cancel()

	mfx := tmmirrortest.NewFixture(ctx, t, 4)
	m := mfx.NewMirror()
	defer m.Wait()
	defer cancel()

	rec := &c17e2eRec{
		ph: make(chan tmconsensus.ProposedHeader),
		pv: make(chan tmconsensus.PrevoteSparseProof),
		pc: make(chan tmconsensus.PrecommitSparseProof),
	}
	toStrategy := make(chan tmelink.NetworkViewUpdate)
	strat := tmgossip.NewChattyStrategy(ctx, slog.New(slog.NewTextHandler(io.Discard, nil)), rec)
	strat.Start(toStrategy)
	defer strat.Wait()
	defer cancel()

	// tee goroutine: the only counterpart of the strategy.
	barrier := make(chan chan c17e2eSnap)
	go func() {
		var snap c17e2eSnap
		forward := func(u tmelink.NetworkViewUpdate) bool {
			for {
				select {
				case toStrategy <- u:
					return true
				case <-rec.ph:
				case p := <-rec.pv:
					snap.prevotes = append(snap.prevotes, p)
				case p := <-rec.pc:
					snap.precs = append(snap.precs, p)
				case <-ctx.Done():
					return false
				}
			}
		}
		for {
			select {
			case <-ctx.Done():
				return
			case u := <-mfx.GossipStrategyOut:
				snap.updates = append(snap.updates, u)
				if !forward(u) {
					return
				}
			case <-rec.ph:
			case p := <-rec.pv:
				snap.prevotes = append(snap.prevotes, p)
			case p := <-rec.pc:
				snap.precs = append(snap.precs, p)
			case resp := <-barrier:
				s := snap
				if len(snap.updates) == 0 {
					// the strategy has not had its first update yet: an empty update would panic it
					s.ok = false
				} else {
					s.ok = forward(tmelink.NetworkViewUpdate{})
					s.updates = append([]tmelink.NetworkViewUpdate{}, snap.updates...)
					s.prevotes = append([]tmconsensus.PrevoteSparseProof{}, snap.prevotes...)
					s.precs = append([]tmconsensus.PrecommitSparseProof{}, snap.precs...)
				}
				resp <- s
			}
		}
	}()
	quiesce := func() c17e2eSnap {
		resp := make(chan c17e2eSnap, 1)
		barrier <- resp
		return <-resp
	}

	const hashX = "verif_block_hash_x"
	vt := func(hash string) tmconsensus.VoteTarget {
		return tmconsensus.VoteTarget{Height: 1, Round: 0, BlockHash: hash}
	}
	sigNil0 := mfx.Fx.PrevoteSignature(ctx, vt(""), 0)
	sigX0 := mfx.Fx.PrevoteSignature(ctx, vt(hashX), 0)
	sigX1 := mfx.Fx.PrevoteSignature(ctx, vt(hashX), 1)

	inView := func(u tmelink.NetworkViewUpdate, hash string, sig []byte) bool {
		if u.Voting == nil {
			return false
		}
		p, ok := u.Voting.PrevoteProofs[hash]
		if !ok {
			return false
		}
		for _, s := range p.AsSparse().Signatures {
			if bytes.Equal(s.Sig, sig) {
				return true
			}
		}
		return false
	}
	offered := func(s c17e2eSnap, hash string, sig []byte) bool {
		for _, p := range s.prevotes {
			if p.Height != 1 || p.Round != 0 {
				continue
			}
			for _, sp := range p.Proofs[hash] {
				if bytes.Equal(sp.Sig, sig) {
					return true
				}
			}
		}
		return false
	}
	// wait until the mirror has handed a view containing the signature to the strategy
	// (generous deadline: only decides "the mirror does not forward it", never a violation)
	waitInView := func(hash string, sig []byte) (c17e2eSnap, bool) {
		deadline := time.Now().Add(20 * time.Second)
		for {
			s := quiesce()
			for _, u := range s.updates {
				if inView(u, hash, sig) {
					return s, true
				}
			}
			if time.Now().After(deadline) {
				return s, false
			}
			time.Sleep(5 * time.Millisecond)
		}
	}

	pv := mfx.Prevoter(m)
	res := vc.M{"kind": "e2e"}
	r1 := pv.HandleProofs(ctx, 1, 0, map[string][]int{"": {0}})
	res["first_vote_result"] = r1.String()
	s1, in1 := waitInView("", sigNil0)
	res["first_vote_in_update"] = in1
	res["first_vote_offered"] = offered(s1, "", sigNil0)

	// the same validator now prevotes for a block: equivocation
	r2 := pv.HandleProofs(ctx, 1, 0, map[string][]int{hashX: {0}})
	res["equivocating_vote_result"] = r2.String()
	s2, in2 := waitInView(hashX, sigX0)
	s2 = quiesce()
	res["equivocating_vote_in_update"] = in2
	res["equivocating_vote_offered"] = offered(s2, hashX, sigX0)

	// another validator votes: the signer count changes
	r3 := pv.HandleProofs(ctx, 1, 0, map[string][]int{hashX: {1}})
	res["third_vote_result"] = r3.String()
	s3, in3 := waitInView(hashX, sigX1)
	s3 = quiesce()
	res["third_vote_in_update"] = in3
	res["third_vote_offered"] = offered(s3, hashX, sigX1)
	res["equivocating_vote_offered_after_third"] = offered(s3, hashX, sigX0)
	res["updates_forwarded"] = len(s3.updates)
	res["prevote_messages"] = len(s3.prevotes)

	// a nil-voted round: 3 of 4 validators precommit nil at (1,0).  The environment of Chatty.tla says
	// the mirror then hands over NilVotedRound (a clone of the old voting view) together with the new
	// Voting and NextRound views; C17 wants the nil precommits offered.
	pc := mfx.Precommitter(m)
	r4 := pc.HandleProofs(ctx, 1, 0, map[string][]int{"": {0, 1, 2}})
	res["nil_precommits_result"] = r4.String()
	var s4 c17e2eSnap
	nvrSeen, nvrShape := false, false
	deadline := time.Now().Add(20 * time.Second)
	for !nvrSeen && time.Now().Before(deadline) {
		s4 = quiesce()
		for _, u := range s4.updates {
			if u.NilVotedRound != nil && u.NilVotedRound.Height == 1 && u.NilVotedRound.Round == 0 {
				nvrSeen = true
				nvrShape = u.Voting != nil && u.Voting.Height == 1 && u.Voting.Round == 1 &&
					u.NextRound != nil && u.NextRound.Height == 1 && u.NextRound.Round == 2 &&
					len(u.NilVotedRound.PrecommitProofs) > 0
			}
		}
		if !nvrSeen {
			time.Sleep(5 * time.Millisecond)
		}
	}
	s4 = quiesce()
	res["nil_voted_round_in_update"] = nvrSeen
	res["nil_voted_round_update_has_voting_1_1_and_nextround_1_2"] = nvrShape
	nOff := 0
	for i := 0; i < 3; i++ {
		sig := mfx.Fx.PrecommitSignature(ctx, vt(""), i)
		for _, p := range s4.precs {
			if p.Height != 1 || p.Round != 0 {
				continue
			}
			for _, sp := range p.Proofs[""] {
				if bytes.Equal(sp.Sig, sig) {
					nOff++
					goto NEXT
				}
			}
		}
	NEXT:
	}
	res["nil_precommits_offered"] = nOff
	out.Emit(res)
	_ = gcrypto.SparseSignature{}
}
