package tmmirror

// Replay of TLC-generated behaviours of spec/Mirror.tla on the real Mirror, with
//  * step-by-step comparison of the projected real state with the spec's expectation, and
//  * the property predicates (C01 C04 C05 C06 C07 C10 C11) evaluated on the REAL state
//    with an oracle that is independent of the engine (own key table, own ed25519 checks).
// Overlaid into /repo by /verif/bin/check; not part of gordian.

import (
	"bytes"
	"context"
	"encoding/binary"
	"encoding/json"
	"errors"
	"fmt"
	"os"
	"runtime"
	"sort"
	"strings"
	"testing"
	"time"

	"github.com/gordian-engine/gordian/gcrypto"
	vc "github.com/gordian-engine/gordian/internal/verifcommon"
	"github.com/gordian-engine/gordian/tm/tmconsensus"
	"github.com/gordian-engine/gordian/tm/tmengine/internal/tmeil"
	"github.com/gordian-engine/gordian/tm/tmengine/internal/tmmirror/internal/tmi"
	"github.com/gordian-engine/gordian/tm/tmengine/tmelink"
)

// ---------------------------------------------------------------- behaviour file format

type bStep struct {
	Op      string          `json:"op"`
	Args    json.RawMessage `json:"args"`
	CrashAt int             `json:"crashAt"`
	NWrites int             `json:"nwrites"`
	Res     json.RawMessage `json:"res"`
	Pan     string          `json:"pan"`
	Fetch   json.RawMessage `json:"fetch"`
	Exp     json.RawMessage `json:"exp"`
}

type behaviour struct {
	ID    int     `json:"id"`
	Steps []bStep `json:"steps"`
}

type voteArgs struct {
	Kind   string                `json:"kind"`
	H      uint64                `json:"h"`
	R      uint32                `json:"r"`
	Pkh    string                `json:"pkh"`
	Proofs map[string][]vc.Entry `json:"proofs"`
}

type phArgs struct {
	Hdr    string `json:"hdr"`
	R      uint32 `json:"r"`
	Prop   int    `json:"prop"`
	Sig    string `json:"sig"`
	HashOK bool   `json:"hashOK"`
}

type replayArgs struct {
	Hdr    string                `json:"hdr"`
	R      uint32                `json:"r"`
	HashOK bool                  `json:"hashOK"`
	Proofs map[string][]vc.Entry `json:"proofs"`
}

type smEnterArgs struct {
	H   uint64 `json:"h"`
	R   uint32 `json:"r"`
	Pub int    `json:"pub"`
}

type smVoteArgs struct {
	Kind   string `json:"kind"`
	Target string `json:"target"`
}

// ToJson renders an empty TLA+ function as [] and a record as {}: accept both.
func decodeProofs(raw json.RawMessage) map[string][]vc.Entry {
	out := map[string][]vc.Entry{}
	if len(raw) == 0 || raw[0] == '[' {
		return out
	}
	if err := json.Unmarshal(raw, &out); err != nil {
		panic(err)
	}
	return out
}

func (a *voteArgs) UnmarshalJSON(b []byte) error {
	var t struct {
		Kind   string          `json:"kind"`
		H      uint64          `json:"h"`
		R      uint32          `json:"r"`
		Pkh    string          `json:"pkh"`
		Proofs json.RawMessage `json:"proofs"`
	}
	if err := json.Unmarshal(b, &t); err != nil {
		return err
	}
	a.Kind, a.H, a.R, a.Pkh, a.Proofs = t.Kind, t.H, t.R, t.Pkh, decodeProofs(t.Proofs)
	return nil
}

func (a *replayArgs) UnmarshalJSON(b []byte) error {
	var t struct {
		Hdr    string          `json:"hdr"`
		R      uint32          `json:"r"`
		HashOK bool            `json:"hashOK"`
		Proofs json.RawMessage `json:"proofs"`
	}
	if err := json.Unmarshal(b, &t); err != nil {
		return err
	}
	a.Hdr, a.R, a.HashOK, a.Proofs = t.Hdr, t.R, t.HashOK, decodeProofs(t.Proofs)
	return nil
}

// ---------------------------------------------------------------- abstraction of the real state (mirrors Proj in MirrorMC.tla)

type M = map[string]any

func pair(t string, s []int) M { return M{"t": t, "s": intsAny(s)} }

func intsAny(s []int) []any {
	out := make([]any, len(s))
	for i, v := range s {
		out[i] = v
	}
	return out
}

func absFullProofs(w *vc.World, p map[string]gcrypto.CommonMessageSignatureProof) []any {
	out := []any{}
	for hash, pr := range p {
		out = append(out, pair(w.Label(hash), vc.Positions(pr)))
	}
	return out
}

func absSparseProofs(w *vc.World, p map[string][]gcrypto.SparseSignature, n int) []any {
	out := []any{}
	for hash, sigs := range p {
		out = append(out, pair(w.Label(hash), vc.SparsePositions(sigs, n)))
	}
	return out
}

func absPHs(w *vc.World, phs []tmconsensus.ProposedHeader) []any {
	out := []any{}
	for _, ph := range phs {
		out = append(out, M{"hdr": w.Label(string(ph.Header.Hash)), "prop": w.KeyIndex(ph.ProposerPubKey)})
	}
	return out
}

func absView(w *vc.World, v *tmconsensus.VersionedRoundView) M {
	n := len(v.ValidatorSet.Validators)
	return M{
		"h": v.Height, "r": v.Round, "vs": w.VSID(v.ValidatorSet),
		"phs":  absPHs(w, v.ProposedHeaders),
		"pv":   absFullProofs(w, v.PrevoteProofs),
		"pc":   absFullProofs(w, v.PrecommitProofs),
		"pcpR": v.PrevCommitProof.Round,
		"pcp":  absSparseProofs(w, v.PrevCommitProof.Proofs, 0*n),
	}
}

func (r *rig) absStores() M {
	ctx := context.Background()
	w := r.w
	st := M{}
	vh, vr, ch, cr, err := r.stores.cur.ms.NetworkHeightRound(ctx)
	if err != nil {
		st["nhr"] = M{"vh": 0, "vr": 0, "ch": 0, "cr": 0}
	} else {
		st["nhr"] = M{"vh": vh, "vr": vr, "ch": ch, "cr": cr}
	}
	hdrs := []any{}
	for h := uint64(1); h < 64; h++ {
		c, err := r.stores.cur.hs.LoadCommittedHeader(ctx, h)
		if err != nil {
			continue
		}
		hdrs = append(hdrs, M{"h": h, "hdr": w.Label(string(c.Header.Hash)), "r": c.Proof.Round,
			"proofs": absSparseProofs(w, c.Proof.Proofs, 0)})
	}
	st["hdr"] = hdrs
	rounds := []any{}
	r.stores.mu.Lock()
	keys := make([]hr, 0, len(r.stores.rounds))
	for k := range r.stores.rounds {
		keys = append(keys, k)
	}
	r.stores.mu.Unlock()
	for _, k := range keys {
		phs, pv, pc, err := r.stores.cur.rs.LoadRoundState(ctx, k.H, k.R)
		if err != nil {
			continue
		}
		real, repl := []tmconsensus.ProposedHeader{}, []any{}
		for _, ph := range phs {
			if ph.ProposerPubKey == nil && len(ph.Signature) == 0 {
				repl = append(repl, w.Label(string(ph.Header.Hash)))
			} else {
				real = append(real, ph)
			}
		}
		rounds = append(rounds, M{"h": k.H, "r": k.R, "phs": absPHs(w, real), "replayed": repl,
			"pv": absSparseProofs(w, pv.BlockSignatures, 0), "pc": absSparseProofs(w, pc.BlockSignatures, 0)})
	}
	st["round"] = rounds
	return st
}

func (r *rig) absState(k *tmi.VerifKState) M {
	w := r.w
	infl := []any{}
	for _, h := range k.InFlight {
		infl = append(infl, w.Label(h))
	}
	ch := "none"
	if len(k.CH.Hash) > 0 {
		ch = w.Label(string(k.CH.Hash))
	}
	smOut := M{"none": true}
	if !k.SMOut.None {
		smOut = M{"sentVersion": k.SMOut.SentVersion}
		if k.SMOut.HasVRV {
			smOut["vrv"] = M{"h": k.SMOut.H, "r": k.SMOut.R, "ver": k.SMOut.Ver}
		} else {
			smOut["vrv"] = M{"h": 0, "r": 0, "ver": 0}
		}
		if k.SMOut.HasJump {
			smOut["jump"] = M{"h": k.SMOut.JH, "r": k.SMOut.JR}
		} else {
			smOut["jump"] = M{"h": 0, "r": 0}
		}
	}
	gsOut := M{"none": true}
	if !k.GSOut.None {
		gsOut = M{"C": k.GSOut.C, "V": k.GSOut.V, "N": k.GSOut.N, "nilVoted": k.GSOut.NilVoted}
	}
	jump := M{"h": 0, "r": 0}
	if k.SMHasJump {
		jump = M{"h": k.SMJumpH, "r": k.SMJumpR}
	}
	return M{
		"down": false,
		"C":    absView(w, &k.C), "V": absView(w, &k.V), "N": absView(w, &k.N),
		"ch":       ch,
		"vers":     M{"c": k.C.Version, "v": k.V.Version, "n": k.N.Version},
		"inflight": infl,
		"sm": M{"reH": k.SMReH, "reR": k.SMReR, "lastSent": k.SMLastSent, "jump": jump,
			"out": M{"h": k.SMOutH, "r": k.SMOutR, "ver": k.SMOutVer}},
		"smOut": smOut, "gsOut": gsOut,
		"st": r.absStores(),
	}
}

// canonical form: every JSON array is a set (the spec side never exports ordered tuples)
func canon(v any) any {
	switch x := v.(type) {
	case map[string]any:
		out := make(map[string]any, len(x))
		for k, e := range x {
			out[k] = canon(e)
		}
		return out
	case []any:
		out := make([]any, len(x))
		keys := make([]string, len(x))
		for i, e := range x {
			out[i] = canon(e)
			b, _ := json.Marshal(out[i])
			keys[i] = string(b)
		}
		idx := make([]int, len(x))
		for i := range idx {
			idx[i] = i
		}
		sort.Slice(idx, func(a, b int) bool { return keys[idx[a]] < keys[idx[b]] })
		res := make([]any, 0, len(x))
		var prev string
		for n, i := range idx {
			if n > 0 && keys[i] == prev {
				continue
			}
			res = append(res, out[i])
			prev = keys[i]
		}
		return res
	default:
		return v
	}
}

func toAny(v any) any {
	b, err := json.Marshal(v)
	if err != nil {
		panic(err)
	}
	var out any
	if err := json.Unmarshal(b, &out); err != nil {
		panic(err)
	}
	return out
}

// diff returns the paths at which a and b (canonical) differ.
func diff(path string, a, b any, out *[]string) {
	if len(*out) > 12 {
		return
	}
	switch x := a.(type) {
	case map[string]any:
		y, ok := b.(map[string]any)
		if !ok {
			*out = append(*out, fmt.Sprintf("%s: %s vs %s", path, js(a), js(b)))
			return
		}
		keys := map[string]struct{}{}
		for k := range x {
			keys[k] = struct{}{}
		}
		for k := range y {
			keys[k] = struct{}{}
		}
		ks := make([]string, 0, len(keys))
		for k := range keys {
			ks = append(ks, k)
		}
		sort.Strings(ks)
		for _, k := range ks {
			xv, xo := x[k]
			yv, yo := y[k]
			if !xo || !yo {
				*out = append(*out, fmt.Sprintf("%s.%s: %s vs %s", path, k, js(xv), js(yv)))
				continue
			}
			diff(path+"."+k, xv, yv, out)
		}
	default:
		if jsFull(a) != jsFull(b) {
			*out = append(*out, fmt.Sprintf("%s: spec=%s real=%s", path, js(a), js(b)))
		}
	}
}

// js renders v for messages (truncated); jsFull renders it completely (used for comparisons).
func js(v any) string {
	s := jsFull(v)
	if len(s) > 400 {
		s = s[:400] + "..."
	}
	return s
}

func jsFull(v any) string {
	b, _ := json.Marshal(v)
	return string(b)
}

// ---------------------------------------------------------------- the oracle (independent of the engine)

type oracle struct {
	// rounds first seen in the round store while their height's validator set was undetermined
	filedEarly map[hr]struct{}
	w *vc.World
	// first hash ever seen committed per height (from the store and from SaveCommittedHeader calls)
	committed map[uint64]string
	lastNHR   [4]uint64
	haveNHR   bool
	lastPos   [2]uint64 // voting h, r seen in memory
	prevAbs   M
}

func newOracle(w *vc.World) *oracle { return &oracle{w: w, committed: map[uint64]string{}} }

// chainVS: the validator set id the chain prescribes for height h given what has been committed.
// viewVSID names the validator set a view carries (by its hashes); "" if it is none of the world's sets.
func (o *oracle) viewVSID(v *tmconsensus.VersionedRoundView) string {
	for id, x := range o.w.Valsets {
		if bytes.Equal(x.PubKeyHash, v.ValidatorSet.PubKeyHash) && bytes.Equal(x.VotePowerHash, v.ValidatorSet.VotePowerHash) {
			return id
		}
	}
	return ""
}

func (o *oracle) chainVS(h uint64) string {
	if h <= 1 {
		return o.w.Def.Genesis
	}
	prev, ok := o.committed[h-1]
	if !ok {
		return ""
	}
	l := o.w.Label(prev)
	d, ok := o.w.Def.Hdr[l]
	if !ok {
		return ""
	}
	return d.NVS
}

func (o *oracle) power(vsID string, positions map[int]struct{}) uint64 {
	d := o.w.Def.Valsets[vsID]
	var p uint64
	for i := range positions {
		if i >= 1 && i <= len(d.Pow) {
			p += d.Pow[i-1]
		}
	}
	return p
}

func (o *oracle) total(vsID string) uint64 {
	var p uint64
	for _, x := range o.w.Def.Valsets[vsID].Pow {
		p += x
	}
	return p
}

func maj(n uint64) uint64 { // least m with 3m > 2n, computed without the engine's math.go
	m := (2 * n) / 3
	for 3*m <= 2*n {
		m++
	}
	return m
}

func minority(n uint64) uint64 { // least m with 3m >= n
	m := n / 3
	for 3*m < n {
		m++
	}
	return m
}

// authentic: does sig verify under the key of position pos of validator set vsID for (kind,h,r,hash)?
func (o *oracle) authentic(kind string, h uint64, r uint32, hash string, vsID string, s gcrypto.SparseSignature) (pos int, ok bool) {
	d, known := o.w.Def.Valsets[vsID]
	if !known || len(s.KeyID) != 2 {
		return 0, false
	}
	idx := int(binary.BigEndian.Uint16(s.KeyID))
	if idx >= len(d.Keys) {
		return 0, false
	}
	pk := o.w.PubKey(d.Keys[idx])
	return idx + 1, pk.Verify(o.w.SignBytes(kind, h, r, hash), s.Sig)
}

type viol struct {
	Prop, Pred, Site, Class, What string
}

// checkProofSet verifies every signature of a target->sparse signatures map.
func (o *oracle) checkSparse(where, kind string, h uint64, r uint32, vsID string, proofs map[string][]gcrypto.SparseSignature, site string, out *[]viol) {
	for hash, sigs := range proofs {
		for _, s := range sigs {
			if _, ok := o.authentic(kind, h, r, hash, vsID, s); !ok {
				*out = append(*out, viol{"C05", "AllFiledAuthentic", site, where,
					fmt.Sprintf("%s holds a %s signature filed under h=%d r=%d target=%s that does not verify under the round's validator set %q (key id %x)",
						where, kind, h, r, o.w.Label(hash), vsID, s.KeyID)})
				return
			}
		}
	}
}

func (o *oracle) checkFull(where, kind string, h uint64, r uint32, vsID string, proofs map[string]gcrypto.CommonMessageSignatureProof, site string, out *[]viol) {
	sp := make(map[string][]gcrypto.SparseSignature, len(proofs))
	for hash, p := range proofs {
		as := p.AsSparse()
		sp[hash] = as.Signatures
		// the bit set must agree with the signatures held
		if len(vc.Positions(p)) != len(as.Signatures) {
			*out = append(*out, viol{"C05", "AllFiledAuthentic", site, where,
				fmt.Sprintf("%s: %s proof for %s has %d bits set but %d signatures", where, kind, o.w.Label(hash), len(vc.Positions(p)), len(as.Signatures))})
		}
	}
	o.checkSparse(where, kind, h, r, vsID, sp, site, out)
}

// recount: what C06 says the summary must be.
func (o *oracle) checkSummary(where string, v *tmconsensus.VersionedRoundView, site string, out *[]viol) {
	if v.Height == 0 || len(v.ValidatorSet.Validators) == 0 {
		return
	}
	vals := v.ValidatorSet.Validators
	var avail uint64
	for _, x := range vals {
		avail += x.Power
	}
	vs := v.VoteSummary
	if vs.AvailablePower != avail {
		*out = append(*out, viol{"C06", "SummaryIsRecount", site, where + ":available",
			fmt.Sprintf("%s: AvailablePower=%d but validators sum to %d", where, vs.AvailablePower, avail)})
	}
	chk := func(kind string, proofs map[string]gcrypto.CommonMessageSignatureProof, total uint64, block map[string]uint64, most string) {
		union := map[int]struct{}{}
		var best uint64
		bestHash := ""
		equivocation := false
		for hash, p := range proofs {
			var pw uint64
			for _, pos := range vc.Positions(p) {
				if pos <= len(vals) {
					pw += vals[pos-1].Power
					if _, dup := union[pos]; dup {
						equivocation = true
					}
					union[pos] = struct{}{}
				}
			}
			if block[hash] != pw {
				*out = append(*out, viol{"C06", "SummaryIsRecount", site, where + ":" + kind + ":block",
					fmt.Sprintf("%s: %s power of %s reported %d, recount %d", where, kind, o.w.Label(hash), block[hash], pw)})
			}
			if pw > best || (pw == best && pw > 0 && hash < bestHash) {
				best, bestHash = pw, hash
			}
		}
		var upw uint64
		for pos := range union {
			upw += vals[pos-1].Power
		}
		if total != upw {
			cls := where + ":" + kind + ":total"
			if equivocation {
				cls += ":equivocation"
			}
			*out = append(*out, viol{"C06", "TotalCountsDistinctValidators", site, cls,
				fmt.Sprintf("%s: total %s power reported %d, distinct signers hold %d", where, kind, total, upw)})
		}
		if most != bestHash {
			*out = append(*out, viol{"C06", "MostVotedDeterministic", site, where + ":" + kind,
				fmt.Sprintf("%s: most voted %s target reported %s, recount %s", where, kind, o.w.Label(most), o.w.Label(bestHash))})
		}
	}
	chk("prevote", v.PrevoteProofs, vs.TotalPrevotePower, vs.PrevoteBlockPower, vs.MostVotedPrevoteHash)
	chk("precommit", v.PrecommitProofs, vs.TotalPrecommitPower, vs.PrecommitBlockPower, vs.MostVotedPrecommitHash)
}

func distinctPower(v *tmconsensus.VersionedRoundView, proofs map[string]gcrypto.CommonMessageSignatureProof) uint64 {
	vals := v.ValidatorSet.Validators
	union := map[int]struct{}{}
	for _, p := range proofs {
		for _, pos := range vc.Positions(p) {
			union[pos] = struct{}{}
		}
	}
	var pw uint64
	for pos := range union {
		if pos <= len(vals) {
			pw += vals[pos-1].Power
		}
	}
	return pw
}

// evaluate runs every predicate on the real state after a step.
func (o *oracle) evaluate(r *rig, k *tmi.VerifKState, prev *tmi.VerifKState, site string, out *[]viol) {
	w := o.w
	ctx := context.Background()

	// ---- committed chain (C01, C04)
	r.stores.mu.Lock()
	saves := map[uint64][]string{}
	for h, l := range r.stores.hdrSaves {
		saves[h] = append([]string(nil), l...)
	}
	r.stores.mu.Unlock()
	for h, l := range saves {
		for _, hash := range l {
			if first, ok := o.committed[h]; !ok {
				o.committed[h] = hash
			} else if first != hash {
				*out = append(*out, viol{"C04", "HdrImmutable", site, "overwrite",
					fmt.Sprintf("committed header at height %d changed from %s to %s", h, w.Label(first), w.Label(hash))})
			}
		}
	}
	var top uint64
	for h := range o.committed {
		if h > top {
			top = h
		}
	}
	for h := uint64(1); h <= top; h++ {
		ch, err := r.stores.cur.hs.LoadCommittedHeader(ctx, h)
		if err != nil {
			if _, ever := o.committed[h]; ever || h < top {
				*out = append(*out, viol{"C04", "NoGaps", site, "gap", fmt.Sprintf("no committed header stored at height %d although height %d is committed", h, top)})
			}
			continue
		}
		if first := o.committed[h]; first != string(ch.Header.Hash) {
			*out = append(*out, viol{"C04", "HdrImmutable", site, "overwrite",
				fmt.Sprintf("committed header at height %d is %s, first recorded %s", h, w.Label(string(ch.Header.Hash)), w.Label(first))})
		}
		if h > 1 {
			if prevCH, err := r.stores.cur.hs.LoadCommittedHeader(ctx, h-1); err == nil {
				if !bytes.Equal(ch.Header.PrevBlockHash, prevCH.Header.Hash) {
					*out = append(*out, viol{"C04", "HashLinked", site, site,
						fmt.Sprintf("committed header %s at height %d names predecessor %s but %s is committed at height %d",
							w.Label(string(ch.Header.Hash)), h, w.Label(string(ch.Header.PrevBlockHash)), w.Label(string(prevCH.Header.Hash)), h-1)})
				}
			}
		}
		// C01: the certificate kept with the committed header
		o.checkCert("hdrStore", h, ch.Proof.Round, string(ch.Header.Hash), ch.Proof.Proofs[string(ch.Header.Hash)], site, out)
	}
	// C01: the committing header in memory is backed by the committing view's precommits
	if len(k.CH.Hash) > 0 {
		if k.CH.Height != k.C.Height {
			*out = append(*out, viol{"C01", "CommitHasCert", site, "committingHeaderHeight",
				fmt.Sprintf("committing header has height %d, committing view %d", k.CH.Height, k.C.Height)})
		}
		var sigs []gcrypto.SparseSignature
		if p, ok := k.C.PrecommitProofs[string(k.CH.Hash)]; ok {
			sigs = p.AsSparse().Signatures
		}
		o.checkCert("committingView", k.C.Height, k.C.Round, string(k.CH.Hash), sigs, site, out)
	}

	// ---- positions (C04)
	if vh, vr, chh, cr, err := r.stores.cur.ms.NetworkHeightRound(ctx); err == nil {
		cur := [4]uint64{vh, uint64(vr), chh, uint64(cr)}
		if o.haveNHR && (cur[0] < o.lastNHR[0] || (cur[0] == o.lastNHR[0] && cur[1] < o.lastNHR[1])) {
			*out = append(*out, viol{"C04", "PositionMonotone", site, "store",
				fmt.Sprintf("stored voting position went from %d/%d to %d/%d", o.lastNHR[0], o.lastNHR[1], cur[0], cur[1])})
		}
		o.lastNHR, o.haveNHR = cur, true
	}
	if k.V.Height < o.lastPos[0] || (k.V.Height == o.lastPos[0] && uint64(k.V.Round) < o.lastPos[1]) {
		*out = append(*out, viol{"C04", "PositionMonotone", site, "memory",
			fmt.Sprintf("voting position went from %d/%d to %d/%d", o.lastPos[0], o.lastPos[1], k.V.Height, k.V.Round)})
	}
	o.lastPos = [2]uint64{k.V.Height, uint64(k.V.Round)}
	if k.C.Height > 0 && k.V.Height != k.C.Height+1 {
		*out = append(*out, viol{"C04", "VotingIsCommittingPlusOne", site, "memory",
			fmt.Sprintf("voting height %d, committing height %d", k.V.Height, k.C.Height)})
	}
	if k.N.Height != k.V.Height || k.N.Round != k.V.Round+1 {
		*out = append(*out, viol{"C04", "VotingIsCommittingPlusOne", site, "nextround",
			fmt.Sprintf("next-round view is %d/%d, voting %d/%d", k.N.Height, k.N.Round, k.V.Height, k.V.Round)})
	}

	// ---- validator sets (C07)
	for _, e := range []struct {
		n string
		v *tmconsensus.VersionedRoundView
	}{{"Voting", &k.V}, {"NextRound", &k.N}, {"Committing", &k.C}} {
		if e.v.Height == 0 {
			continue
		}
		want := o.chainVS(e.v.Height)
		if want == "" {
			continue
		}
		got := w.VSID(e.v.ValidatorSet)
		if got != want {
			*out = append(*out, viol{"C07", "ViewValsetIsChain", site, e.n + ":" + got,
				fmt.Sprintf("%s view at height %d uses validator set %s, the chain prescribes %s", e.n, e.v.Height, got, want)})
		}
	}

	// ---- authenticity (C05)
	for _, e := range []struct {
		n string
		v *tmconsensus.VersionedRoundView
	}{{"Voting", &k.V}, {"NextRound", &k.N}, {"Committing", &k.C}} {
		if e.v.Height == 0 {
			continue
		}
		vsID := o.chainVS(e.v.Height)
		if vsID == "" {
			continue
		}
		o.checkFull(e.n+".prevotes", "prevote", e.v.Height, e.v.Round, vsID, e.v.PrevoteProofs, site, out)
		o.checkFull(e.n+".precommits", "precommit", e.v.Height, e.v.Round, vsID, e.v.PrecommitProofs, site, out)
		if e.v.Height > 1 && len(e.v.PrevCommitProof.Proofs) > 0 {
			if pvs := o.chainVS(e.v.Height - 1); pvs != "" {
				o.checkSparse(e.n+".prevCommitProof", "precommit", e.v.Height-1, e.v.PrevCommitProof.Round, pvs, e.v.PrevCommitProof.Proofs, site, out)
			}
		}
		o.checkSummary(e.n, e.v, site, out)
	}
	r.stores.mu.Lock()
	rkeys := make([]hr, 0, len(r.stores.rounds))
	for x := range r.stores.rounds {
		rkeys = append(rkeys, x)
	}
	r.stores.mu.Unlock()
	for _, x := range rkeys {
		_, pv, pc, err := r.stores.cur.rs.LoadRoundState(ctx, x.H, x.R)
		if err != nil {
			continue
		}
		vsID := o.chainVS(x.H)
		pvVS, pcVS := vsID, vsID
		suffix := ""
		if vsID == "" {
			// a future height whose set is not determined yet: the votes were verified against the
			// set named by the message; they must at least verify under that set (prevotes and precommits
			// are separate collections, each with the hash it was filed under)
			pvVS, pcVS = w.PKHID(string(pv.PubKeyHash)), w.PKHID(string(pc.PubKeyHash))
			if o.filedEarly == nil {
				o.filedEarly = map[hr]struct{}{}
			}
			o.filedEarly[x] = struct{}{}
		} else if _, early := o.filedEarly[x]; early {
			// filed while the height's validator set was still undetermined
			suffix = ":filed-before-set-known"
		}
		o.checkSparse("roundStore.prevotes"+suffix, "prevote", x.H, x.R, pvVS, pv.BlockSignatures, site, out)
		o.checkSparse("roundStore.precommits"+suffix, "precommit", x.H, x.R, pcVS, pc.BlockSignatures, site, out)
		for hash, sigs := range pv.BlockSignatures {
			if len(sigs) == 0 {
				*out = append(*out, viol{"C05", "AllFiledAuthentic", site, "roundStore.emptyEntry",
					fmt.Sprintf("round store holds an empty prevote signature list for %s at %d/%d", w.Label(hash), x.H, x.R)})
			}
		}
		for hash, sigs := range pc.BlockSignatures {
			if len(sigs) == 0 {
				*out = append(*out, viol{"C05", "AllFiledAuthentic", site, "roundStore.emptyEntry",
					fmt.Sprintf("round store holds an empty precommit signature list for %s at %d/%d", w.Label(hash), x.H, x.R)})
			}
		}
	}

	// ---- restart resumes from what was durable (C10)
	if site == "Restart" || site == "Boot" {
		if o.haveNHR {
			if k.V.Height < o.lastNHR[0] || (k.V.Height == o.lastNHR[0] && uint64(k.V.Round) < o.lastNHR[1]) {
				*out = append(*out, viol{"C10", "NotBehindDurable", site, "voting",
					fmt.Sprintf("after restart voting position is %d/%d but %d/%d was durably recorded", k.V.Height, k.V.Round, o.lastNHR[0], o.lastNHR[1])})
			}
			if k.C.Height < o.lastNHR[2] {
				*out = append(*out, viol{"C10", "NotBehindDurable", site, "committing",
					fmt.Sprintf("after restart committing height is %d but %d was durably recorded", k.C.Height, o.lastNHR[2])})
			}
		}
		for _, e := range []struct {
			n string
			v *tmconsensus.VersionedRoundView
		}{{"Voting", &k.V}, {"NextRound", &k.N}, {"Committing", &k.C}} {
			if e.v.Height == 0 {
				continue
			}
			phs, pv, pc, err := r.stores.cur.rs.LoadRoundState(ctx, e.v.Height, e.v.Round)
			if err != nil {
				continue
			}
			for _, ph := range phs {
				found := false
				for _, have := range e.v.ProposedHeaders {
					if bytes.Equal(have.Header.Hash, ph.Header.Hash) {
						found = true
					}
				}
				if !found {
					*out = append(*out, viol{"C10", "PersistedVotesReloaded", site, e.n + ":ph",
						fmt.Sprintf("proposed header %s persisted for %d/%d is missing from the %s view after restart", w.Label(string(ph.Header.Hash)), e.v.Height, e.v.Round, e.n)})
				}
			}
			chk := func(kind string, stored map[string][]gcrypto.SparseSignature, have map[string]gcrypto.CommonMessageSignatureProof) {
				for hash, sigs := range stored {
					hp := map[int]struct{}{}
					if p, ok := have[hash]; ok {
						for _, pos := range vc.Positions(p) {
							hp[pos] = struct{}{}
						}
					}
					for _, sg := range sigs {
						// only votes of this round's validators are owed: a signature stored for the round under another
						// key set (accepted while the height was still in the future) is not one
						pos, authentic := o.authentic(kind, e.v.Height, e.v.Round, hash, o.viewVSID(e.v), sg)
						if !authentic {
							continue
						}
						if _, ok := hp[pos]; !ok {
							*out = append(*out, viol{"C10", "PersistedVotesReloaded", site, e.n + ":" + kind,
								fmt.Sprintf("%s of validator %d for %s persisted for %d/%d is missing from the %s view after restart", kind, pos, w.Label(hash), e.v.Height, e.v.Round, e.n)})
							return
						}
					}
				}
			}
			chk("prevote", pv.BlockSignatures, e.v.PrevoteProofs)
			chk("precommit", pc.BlockSignatures, e.v.PrecommitProofs)
			// ... and so is every vote that had been durably written for the round before, even if a later write of the
			// same round's collection no longer contained it (a write that drops persisted votes loses them at this restart)
			chk("prevote", r.stores.everVotes(e.v.Height, e.v.Round, "prevote"), e.v.PrevoteProofs)
			chk("precommit", r.stores.everVotes(e.v.Height, e.v.Round, "precommit"), e.v.PrecommitProofs)
		}
	}

	// ---- round changes need a cause (C06 consequence)
	if prev != nil && k.V.Height == prev.V.Height && k.V.Round > prev.V.Round && site != "Replay" && site != "Restart" {
		avail := k.V.VoteSummary.AvailablePower
		justified := false
		// (c) >= 1/3 of the power (distinct validators) voted in the new round
		if distinctPower(&k.V, k.V.PrevoteProofs) >= minority(avail) || distinctPower(&k.V, k.V.PrecommitProofs) >= minority(avail) {
			justified = true
		}
		// (a)/(b) the old round ended: nil majority or everybody precommitted
		if k.NilVoted != nil && k.NilVoted.Height == prev.V.Height && k.NilVoted.Round == prev.V.Round {
			nv := k.NilVoted
			all := distinctPower(nv, nv.PrecommitProofs)
			var nilPow uint64
			if p, ok := nv.PrecommitProofs[""]; ok {
				nilPow = distinctPower(nv, map[string]gcrypto.CommonMessageSignatureProof{"": p})
			}
			if nilPow >= maj(avail) || all == avail {
				justified = true
			}
		}
		if !justified {
			*out = append(*out, viol{"C06", "MinorityCannotSkip", site, "roundSkip",
				fmt.Sprintf("voting round moved %d -> %d at height %d although distinct validators voting in round %d hold %d prevote / %d precommit power of %d (< 1/3) and round %d did not end",
					prev.V.Round, k.V.Round, k.V.Height, k.V.Round, distinctPower(&k.V, k.V.PrevoteProofs), distinctPower(&k.V, k.V.PrecommitProofs), avail, prev.V.Round)})
		}
	}
}

// checkCert: C01 predicate for one commit event.
func (o *oracle) checkCert(where string, h uint64, round uint32, hash string, sigs []gcrypto.SparseSignature, site string, out *[]viol) {
	vsID := o.chainVS(h)
	if vsID == "" {
		*out = append(*out, viol{"C01", "CommitHasCert", site, where + ":unknownSet",
			fmt.Sprintf("%s: header %s committed at height %d but the chain's validator set for it is undetermined", where, o.w.Label(hash), h)})
		return
	}
	seen := map[int]struct{}{}
	for _, s := range sigs {
		if pos, ok := o.authentic("precommit", h, round, hash, vsID, s); ok {
			seen[pos] = struct{}{}
		}
	}
	pw, tot := o.power(vsID, seen), o.total(vsID)
	if pw < maj(tot) {
		*out = append(*out, viol{"C01", "CommitHasCert", site, where,
			fmt.Sprintf("%s: header %s committed at height %d round %d with authentic precommit power %d of %d from the prescribed set %s (need %d); %d signatures held",
				where, o.w.Label(hash), h, round, pw, tot, vsID, maj(tot), len(sigs))})
	}
}


// ---------------------------------------------------------------- consumers of the two view channels (C11)

type hrKey struct {
	H uint64
	R uint32
}

// consumer remembers, per (height, round), the last view a reader of one output channel received.
type consumer struct {
	name string
	last map[hrKey]tmconsensus.VersionedRoundView
}

func newConsumer(name string) *consumer {
	return &consumer{name: name, last: map[hrKey]tmconsensus.VersionedRoundView{}}
}

func signerSets(w *vc.World, p map[string]gcrypto.CommonMessageSignatureProof) map[string]map[int]struct{} {
	out := map[string]map[int]struct{}{}
	for hash, pr := range p {
		m := map[int]struct{}{}
		for _, pos := range vc.Positions(pr) {
			m[pos] = struct{}{}
		}
		out[hash] = m
	}
	return out
}

func subsetSigners(a, b map[string]map[int]struct{}) bool {
	for hash, sa := range a {
		sb, ok := b[hash]
		if !ok && len(sa) > 0 {
			return false
		}
		for pos := range sa {
			if _, ok := sb[pos]; !ok {
				return false
			}
		}
	}
	return true
}

func sameSigners(a, b map[string]map[int]struct{}) bool {
	return subsetSigners(a, b) && subsetSigners(b, a)
}

func phSet(phs []tmconsensus.ProposedHeader) map[string]struct{} {
	out := map[string]struct{}{}
	for _, ph := range phs {
		out[string(ph.Header.Hash)] = struct{}{}
	}
	return out
}

// receive records a view handed to this consumer and checks that, for its (height, round),
// versions strictly increase and proposals and votes only grow.
func (c *consumer) receive(w *vc.World, v *tmconsensus.VersionedRoundView, strict bool, site string, out *[]viol) {
	if v == nil || v.Height == 0 {
		return
	}
	k := hrKey{v.Height, v.Round}
	if prev, ok := c.last[k]; ok {
		if v.Version < prev.Version || (strict && v.Version == prev.Version) {
			*out = append(*out, viol{"C11", c.name + "VersionsIncrease", site, "version",
				fmt.Sprintf("%s received version %d for %d/%d after version %d", c.name, v.Version, v.Height, v.Round, prev.Version)})
		}
		grew := true
		for h := range phSet(prev.ProposedHeaders) {
			if _, ok := phSet(v.ProposedHeaders)[h]; !ok {
				grew = false
			}
		}
		if !subsetSigners(signerSets(w, prev.PrevoteProofs), signerSets(w, v.PrevoteProofs)) ||
			!subsetSigners(signerSets(w, prev.PrecommitProofs), signerSets(w, v.PrecommitProofs)) {
			grew = false
		}
		if !grew {
			*out = append(*out, viol{"C11", "ViewsOnlyGrow", site, c.name,
				fmt.Sprintf("%s received a view of %d/%d (version %d) that lost proposals or votes held by version %d", c.name, v.Height, v.Round, v.Version, prev.Version)})
		}
	}
	c.last[k] = v.Clone()
}

// current checks that what the consumer last received for (h,r) has the content of the mirror's view cur.
func (c *consumer) current(w *vc.World, cur *tmconsensus.VersionedRoundView, site, what string, out *[]viol) {
	if cur == nil || cur.Height == 0 {
		return
	}
	got, ok := c.last[hrKey{cur.Height, cur.Round}]
	if !ok {
		*out = append(*out, viol{"C11", "EventuallyCurrent", site, c.name + ":" + what + ":never",
			fmt.Sprintf("inputs stopped and nothing is pending, but %s never received the %s view %d/%d", c.name, what, cur.Height, cur.Round)})
		return
	}
	if len(phSet(got.ProposedHeaders)) != len(phSet(cur.ProposedHeaders)) ||
		!sameSigners(signerSets(w, got.PrevoteProofs), signerSets(w, cur.PrevoteProofs)) ||
		!sameSigners(signerSets(w, got.PrecommitProofs), signerSets(w, cur.PrecommitProofs)) {
		*out = append(*out, viol{"C11", "EventuallyCurrent", site, c.name + ":" + what + ":stale",
			fmt.Sprintf("inputs stopped and nothing is pending, but %s last received version %d of the %s view %d/%d while the mirror holds version %d with other proposals or votes",
				c.name, got.Version, what, cur.Height, cur.Round, cur.Version)})
	}
}

// ---------------------------------------------------------------- the replay driver

func resString(raw json.RawMessage) string {
	var s string
	if json.Unmarshal(raw, &s) == nil {
		return s
	}
	return string(raw)
}

var voteResNames = map[tmconsensus.HandleVoteProofsResult]string{
	tmconsensus.HandleVoteProofsAccepted:         "Accepted",
	tmconsensus.HandleVoteProofsNoNewSignatures:  "NoNewSignatures",
	tmconsensus.HandleVoteProofsEmpty:            "Empty",
	tmconsensus.HandleVoteProofsBadPubKeyHash:    "BadPubKeyHash",
	tmconsensus.HandleVoteProofsRoundTooOld:      "RoundTooOld",
	tmconsensus.HandleVoteProofsFutureVerified:   "FutureVerified",
	tmconsensus.HandleVoteProofsFutureUnverified: "FutureUnverified",
	tmconsensus.HandleVoteProofsBadSignature:     "BadSignature",
	tmconsensus.HandleVoteProofsInternalError:    "InternalError",
}

var phResNames = map[tmconsensus.HandleProposedHeaderResult]string{
	tmconsensus.HandleProposedHeaderAccepted:                       "Accepted",
	tmconsensus.HandleProposedHeaderAlreadyStored:                  "AlreadyStored",
	tmconsensus.HandleProposedHeaderSignerUnrecognized:             "SignerUnrecognized",
	tmconsensus.HandleProposedHeaderBadBlockHash:                   "BadBlockHash",
	tmconsensus.HandleProposedHeaderBadSignature:                   "BadSignature",
	tmconsensus.HandleProposedHeaderBadPrevCommitProofPubKeyHash:   "BadPrevCommitProofPubKeyHash",
	tmconsensus.HandleProposedHeaderBadPrevCommitProofSignature:    "BadPrevCommitProofSignature",
	tmconsensus.HandleProposedHeaderBadPrevCommitProofDoubleSigned: "BadPrevCommitProofDoubleSigned",
	tmconsensus.HandleProposedHeaderBadPrevCommitVoteCount:         "BadPrevCommitVoteCount",
	tmconsensus.HandleProposedHeaderRoundTooOld:                    "RoundTooOld",
	tmconsensus.HandleProposedHeaderRoundTooFarInFuture:            "RoundTooFarInFuture",
	tmconsensus.HandleProposedHeaderMissingProposerPubKey:          "MissingProposerPubKey",
	tmconsensus.HandleProposedHeaderInternalError:                  "InternalError",
}

type runner struct {
	nStopped int
	t     *testing.T
	w     *vc.World
	out   *vc.Out
	trace *vc.Out
	nSteps, nBeh, nMismatch, nViol int
	opSeen map[string]int
	stateKeys map[string]struct{}
}

func (rn *runner) emitViol(beh, step int, op string, v viol) {
	rn.nViol++
	rn.out.Emit(vc.M{"kind": "violation", "prop": v.Prop, "pred": v.Pred, "site": v.Site, "class": v.Class,
		"what": v.What, "beh": beh, "step": step, "op": op})
}

// callRecover runs f and converts a panic of the calling goroutine into an error string.
func callRecover(f func()) (panicked string) {
	defer func() {
		if p := recover(); p != nil {
			panicked = fmt.Sprint(p)
		}
	}()
	f()
	return ""
}

func (rn *runner) runBehaviour(b behaviour) {
	// a behaviour that does not finish (a goroutine of the component or of the harness is wedged) must not hold the whole
	// batch until the outer timeout: the child ends here, the parent attributes the death to the last begun step and goes on
	hangGuard := time.AfterFunc(120*time.Second, func() {
		rn.out.Emit(vc.M{"kind": "hang", "beh": b.ID})
		rn.out.Flush()
		buf := make([]byte, 1<<20)
		os.Stderr.Write(buf[:runtime.Stack(buf, true)])
		os.Exit(3)
	})
	defer hangGuard.Stop()
	w := rn.w
	stores := newRecStores(w.HashScheme)
	for id, d := range w.Def.Valsets {
		if d.Stored {
			vs := w.Valsets[id]
			keys := make([]gcrypto.PubKey, len(vs.Validators))
			pows := make([]uint64, len(vs.Validators))
			for i, v := range vs.Validators {
				keys[i], pows[i] = v.PubKey, v.Power
			}
			f := func(m *memStores) {
				_, _ = m.vs.SavePubKeys(context.Background(), keys)
				_, _ = m.vs.SaveVotePowers(context.Background(), pows)
			}
			f(stores.cur)
			stores.base = append(stores.base, f)
		}
	}
	r := newRig(w, stores)
	o := newOracle(w)
	defer func() { r.stop() }()
	var prevK *tmi.VerifKState
	alive := false
	smC, gsC := newConsumer("StateMachine"), newConsumer("Gossip")
	// the rounds the mirror left by a nil commit, with the votes that justified it, until gossip saw them
	var pendingNil []tmconsensus.VersionedRoundView
	// nil-voted rounds that were still undelivered when the mirror recorded the next one (the gossip view manager has one slot)
	superseded := map[[2]uint64]bool{}
	// diverged: the real code left the model's prediction; the rest of the behaviour is a free run
	diverged := false

	for i, st := range b.Steps {
		rn.nSteps++
		rn.opSeen[st.Op]++
		rn.out.Emit(vc.M{"kind": "begin", "beh": b.ID, "step": i, "op": st.Op, "args": st.Args, "expPan": st.Pan})
		rn.out.Flush()

		pointsBefore := stores.nPoints()
		gotRes := ""
		panicked := ""
		var fetch [][2]string
		needK := true

		if diverged {
			// free run: only network inputs and consumer reads are delivered; the state machine's own calls are
			// bound by a contract that the model enforced (it never runs ahead of the mirror), and a restart needs
			// the model's crash point
			switch st.Op {
			case "Vote", "PH", "Replay":
				if !alive {
					continue
				}
			case "Restart":
				// only after a crash (the stores are the ones the real process left behind)
				if alive {
					continue
				}
			case "RecvSM":
				if prevK == nil || prevK.SMOut.None {
					continue
				}
			case "RecvGossip":
				if prevK == nil || prevK.GSOut.None {
					continue
				}
			case "SMEnter":
				// delivered only if the state machine's contract holds on the REAL state: it moves forwards and is
				// never ahead of the mirror by a height or by more than one round
				var a smEnterArgs
				must(json.Unmarshal(st.Args, &a))
				if prevK == nil {
					continue
				}
				fwd := a.H > prevK.SMReH || (a.H == prevK.SMReH && a.R > prevK.SMReR)
				within := a.H <= prevK.V.Height && (a.H != prevK.V.Height || a.R <= prevK.V.Round+1) &&
					(a.H != prevK.C.Height || a.R <= prevK.C.Round+1) &&
					(a.H >= prevK.C.Height || prevK.C.Height == 0) && (a.H != prevK.V.Height || a.R >= prevK.V.Round)
				if !fwd || !within {
					continue
				}
			default:
				continue
			}
		}

		switch st.Op {
		case "Boot", "Restart":
			if st.Op == "Restart" {
				// stores were already truncated by the crashing step
			}
			err := r.start()
			if err != nil {
				if strings.HasPrefix(err.Error(), "PANIC") {
					panicked = err.Error()
				} else {
					panicked = "NewMirror error: " + err.Error()
				}
				alive = false
				rn.emitViol(b.ID, i, st.Op, viol{"C10", "RestartSucceeds", st.Op, classOfPanic(panicked),
					"starting the mirror on the stores left by the crash failed: " + panicked})
			} else {
				alive = true
			}

		case "Vote":
			var a voteArgs
			must(json.Unmarshal(st.Args, &a))
			vsForSig := a.Pkh
			if _, ok := w.Def.Valsets[vsForSig]; !ok {
				vsForSig = w.Def.Genesis
			}
			proofs := w.SparseProofs(a.Kind, a.H, a.R, vsForSig, a.Proofs)
			panicked = callRecover(func() {
				ctx, cancel := context.WithTimeout(r.ctx, 20*time.Second)
				defer cancel()
				var res tmconsensus.HandleVoteProofsResult
				if a.Kind == "prevote" {
					res = r.m.HandlePrevoteProofs(ctx, tmconsensus.PrevoteSparseProof{Height: a.H, Round: a.R, PubKeyHash: w.PKH(a.Pkh), Proofs: proofs})
				} else {
					res = r.m.HandlePrecommitProofs(ctx, tmconsensus.PrecommitSparseProof{Height: a.H, Round: a.R, PubKeyHash: w.PKH(a.Pkh), Proofs: proofs})
				}
				gotRes = voteResNames[res]
				if gotRes == "" {
					gotRes = fmt.Sprintf("unknown(%d)", res)
				}
			})

		case "PH":
			var a phArgs
			must(json.Unmarshal(st.Args, &a))
			ph := w.ProposedHeader(a.Hdr, a.R, a.Prop, a.Sig, a.HashOK)
			nAdd := r.count("AddPH")
			done := make(chan struct{})
			go func() {
				defer close(done)
				panicked = callRecover(func() {
					ctx, cancel := context.WithTimeout(r.ctx, 3*time.Second)
					defer cancel()
					checks := r.count("PHCheck")
					res := r.m.HandleProposedHeader(ctx, ph)
					gotRes = phResNames[res]
					if gotRes == "" {
						gotRes = fmt.Sprintf("unknown(%d)", res)
					}
					// the call only came back because our deadline expired, after cycling through
					// the kernel's header check: it would never have returned on its own
					if ctx.Err() != nil && r.count("PHCheck")-checks > 1000 {
						gotRes = "HANG"
					}
				})
			}()
			select {
			case <-done:
			case <-time.After(25 * time.Second):
				gotRes = "HANG"
			}
			if gotRes == "Accepted" {
				if !r.waitCount("AddPH", nAdd, 10*time.Second) {
					rn.out.Emit(vc.M{"kind": "inconclusive", "beh": b.ID, "step": i, "why": "AddPH event not observed after Accepted"})
					return
				}
			}
			if gotRes == "HANG" {
				rn.out.Emit(vc.M{"kind": "result", "beh": b.ID, "step": i, "op": st.Op, "res": gotRes})
				panicked = "HANG: HandleProposedHeader never returns"
			}

		case "Replay":
			var a replayArgs
			must(json.Unmarshal(st.Args, &a))
			hdr := w.Header(a.Hdr)
			hdr.Hash = bytes.Clone(hdr.Hash)
			if !a.HashOK {
				hdr.Hash[0] ^= 1
			}
			d := w.Def.Hdr[a.Hdr]
			proof := tmconsensus.CommitProof{Round: a.R, PubKeyHash: string(hdr.ValidatorSet.PubKeyHash),
				Proofs: w.SparseProofs("precommit", d.H, a.R, d.VS, a.Proofs)}
			resp := make(chan tmelink.ReplayedHeaderResponse, 1)
			select {
			case r.replayIn <- tmelink.ReplayedHeaderRequest{Header: hdr, Proof: proof, Resp: resp}:
			case <-time.After(10 * time.Second):
				rn.out.Emit(vc.M{"kind": "inconclusive", "beh": b.ID, "step": i, "why": "kernel did not accept replayed header"})
				return
			}
			select {
			case rr := <-resp:
				switch {
				case rr.Err == nil:
					gotRes = "nil"
				case errors.As(rr.Err, new(tmelink.ReplayedHeaderOutOfSyncError)):
					gotRes = "OutOfSync"
				case errors.As(rr.Err, new(tmelink.ReplayedHeaderValidationError)):
					gotRes = "Validation"
				case errors.As(rr.Err, new(tmelink.ReplayedHeaderInternalError)):
					gotRes = "Internal"
				default:
					gotRes = "other:" + rr.Err.Error()
				}
			case <-time.After(10 * time.Second):
				rn.out.Emit(vc.M{"kind": "inconclusive", "beh": b.ID, "step": i, "why": "no replay response"})
				return
			}

		case "SMEnter":
			var a smEnterArgs
			must(json.Unmarshal(st.Args, &a))
			re := tmeil.StateMachineRoundEntrance{H: a.H, R: a.R, Response: make(chan tmeil.RoundEntranceResponse, 1)}
			hc := make(chan struct{})
			re.HeightCommitted = hc
			r.smHC = hc
			r.smPub = a.Pub
			r.smActions = nil
			if a.Pub != 0 {
				re.PubKey = w.PubKey(a.Pub)
				re.Actions = make(chan tmeil.StateMachineRoundAction, 3)
				r.smActions = re.Actions
			}
			select {
			case r.smEntrance <- re:
			case <-time.After(10 * time.Second):
				rn.out.Emit(vc.M{"kind": "inconclusive", "beh": b.ID, "step": i, "why": "kernel did not accept round entrance"})
				return
			}
			select {
			case resp := <-re.Response:
				if resp.IsVRV() {
					var cv []viol
					vrv := resp.VRV
					smC.receive(w, &vrv, true, "SMEnter", &cv)
					for _, v := range cv {
						rn.emitViol(b.ID, i, st.Op, v)
					}
					gotRes = jsFull(toAny([]any{"VRV", resp.VRV.Height, resp.VRV.Round, resp.VRV.Version}))
				} else {
					gotRes = jsFull(toAny([]any{"CH", w.Label(string(resp.CH.Header.Hash))}))
					// C01: a committed header handed to the state machine must carry a certificate
					var vs []viol
					o.checkCert("roundEntranceCH", resp.CH.Header.Height, resp.CH.Proof.Round, string(resp.CH.Header.Hash),
						resp.CH.Proof.Proofs[string(resp.CH.Header.Hash)], "SMEnter", &vs)
					for _, v := range vs {
						rn.emitViol(b.ID, i, st.Op, v)
					}
				}
			case <-time.After(10 * time.Second):
				rn.out.Emit(vc.M{"kind": "inconclusive", "beh": b.ID, "step": i, "why": "no round entrance response"})
				return
			}

		case "SMVote":
			var a smVoteArgs
			must(json.Unmarshal(st.Args, &a))
			if r.smActions == nil {
				rn.out.Emit(vc.M{"kind": "inconclusive", "beh": b.ID, "step": i, "why": "SMVote without actions channel"})
				return
			}
			h, rd := prevK.SMReH, prevK.SMReR
			th := w.TargetHash(a.Target)
			content := w.SignBytes(a.Kind, h, rd, th)
			sig, err := w.Signer(r.smPub).Sign(context.Background(), content)
			must(err)
			act := tmeil.StateMachineRoundAction{}
			ss := tmeil.ScopedSignature{TargetHash: th, SignContent: content, Sig: sig}
			if a.Kind == "prevote" {
				act.Prevote = ss
			} else {
				act.Precommit = ss
			}
			n := r.count("SMAction")
			r.smActions <- act
			if !r.waitCount("SMAction", n, 10*time.Second) {
				rn.out.Emit(vc.M{"kind": "inconclusive", "beh": b.ID, "step": i, "why": "SMAction event not observed"})
				return
			}
			gotRes = "none"

		case "CStart":
			// a caller starts Handle*Proofs and is parked at the gate between its two phases
			var a struct {
				C int      `json:"c"`
				M voteArgs `json:"m"`
			}
			must(json.Unmarshal(st.Args, &a))
			vsForSig := a.M.Pkh
			if _, ok := w.Def.Valsets[vsForSig]; !ok {
				vsForSig = w.Def.Genesis
			}
			proofs := w.SparseProofs(a.M.Kind, a.M.H, a.M.R, vsForSig, a.M.Proofs)
			cctx, ccancel := context.WithCancel(r.ctx)
			cc := &concCall{done: make(chan string, 1), atGate: make(chan struct{}), release: make(chan struct{}), cancel: ccancel}
			if r.calls == nil {
				r.calls = map[int]*concCall{}
			}
			r.calls[a.C] = cc
			r.gateMu.Lock()
			r.gateOwner = cc
			r.gateMu.Unlock()
			go func() {
				var res tmconsensus.HandleVoteProofsResult
				if a.M.Kind == "prevote" {
					res = r.m.HandlePrevoteProofs(cctx, tmconsensus.PrevoteSparseProof{Height: a.M.H, Round: a.M.R, PubKeyHash: w.PKH(a.M.Pkh), Proofs: proofs})
				} else {
					res = r.m.HandlePrecommitProofs(cctx, tmconsensus.PrecommitSparseProof{Height: a.M.H, Round: a.M.R, PubKeyHash: w.PKH(a.M.Pkh), Proofs: proofs})
				}
				cc.done <- voteResNames[res]
			}()
			select {
			case <-cc.atGate:
				gotRes = "parked"
			case res := <-cc.done:
				gotRes = res
				delete(r.calls, a.C)
			case <-time.After(10 * time.Second):
				rn.out.Emit(vc.M{"kind": "inconclusive", "beh": b.ID, "step": i, "why": "call neither reached the gate nor returned"})
				return
			}

		case "CStartPH":
			var a struct {
				C int    `json:"c"`
				M phArgs `json:"m"`
			}
			must(json.Unmarshal(st.Args, &a))
			ph := w.ProposedHeader(a.M.Hdr, a.M.R, a.M.Prop, a.M.Sig, a.M.HashOK)
			cctx, ccancel := context.WithCancel(r.ctx)
			cc := &concCall{done: make(chan string, 1), atGate: make(chan struct{}), release: make(chan struct{}), cancel: ccancel}
			r.calls[a.C] = cc
			r.gateMu.Lock()
			r.gateOwner = cc
			r.gateMu.Unlock()
			go func() {
				cc.done <- phResNames[r.m.HandleProposedHeader(cctx, ph)]
			}()
			select {
			case <-cc.atGate:
				gotRes = "parked"
			case res := <-cc.done:
				gotRes = res
				delete(r.calls, a.C)
			case <-time.After(10 * time.Second):
				rn.out.Emit(vc.M{"kind": "inconclusive", "beh": b.ID, "step": i, "why": "HandleProposedHeader neither reached the gate nor returned"})
				return
			}

		case "CFinishPH":
			var a struct {
				C int `json:"c"`
			}
			must(json.Unmarshal(st.Args, &a))
			cc := r.calls[a.C]
			if cc == nil {
				rn.out.Emit(vc.M{"kind": "inconclusive", "beh": b.ID, "step": i, "why": "no parked HandleProposedHeader call for this caller"})
				return
			}
			nAdd := r.count("AddPH")
			cc.release <- struct{}{}
			select {
			case res := <-cc.done:
				gotRes = res
				delete(r.calls, a.C)
			case <-time.After(10 * time.Second):
				rn.out.Emit(vc.M{"kind": "inconclusive", "beh": b.ID, "step": i, "why": "parked HandleProposedHeader call did not return"})
				return
			}
			if gotRes == "Accepted" {
				// the add request is fire-and-forget: wait until the kernel has worked on it
				if !r.waitCount("AddPH", nAdd, 10*time.Second) {
					rn.out.Emit(vc.M{"kind": "inconclusive", "beh": b.ID, "step": i, "why": "AddPH event not observed after Accepted"})
					return
				}
			}

		case "CFinish", "CAbandon":
			var a struct {
				C int `json:"c"`
			}
			must(json.Unmarshal(st.Args, &a))
			cc := r.calls[a.C]
			if cc == nil {
				rn.out.Emit(vc.M{"kind": "inconclusive", "beh": b.ID, "step": i, "why": "no parked call for this caller"})
				return
			}
			var reached <-chan struct{}
			var release chan<- struct{}
			if st.Op == "CAbandon" {
				reached, release = stores.armHold()
			}
			r.gateMu.Lock()
			r.gateOwner = cc
			r.gateMu.Unlock()
			cc.release <- struct{}{}
			select {
			case <-cc.atGate:
				gotRes = "retry"
			case res := <-cc.done:
				gotRes = res
				delete(r.calls, a.C)
			case <-reached:
				// the kernel is inside the add request: the caller gives up now
				cc.cancel()
				select {
				case res := <-cc.done:
					gotRes = res
				case <-time.After(10 * time.Second):
					gotRes = "caller-stuck"
				}
				delete(r.calls, a.C)
				close(release)
			case <-time.After(10 * time.Second):
				rn.out.Emit(vc.M{"kind": "inconclusive", "beh": b.ID, "step": i, "why": "parked call neither returned nor retried"})
				return
			}
			r.gateMu.Lock()
			r.gateOwner = nil
			r.gateMu.Unlock()
			if st.Op == "CAbandon" {
				stores.disarmHold()
				// the kernel answers a view request within microseconds once the held write is released
				r.syncD = 3 * time.Second
			}

		case "RecvSM":
			select {
			case v := <-r.smViewOut:
				{
					var cv []viol
					if v.VRV.Height != 0 {
						vv := v.VRV
						smC.receive(w, &vv, true, "RecvSM", &cv)
					}
					if v.JumpAheadRoundView != nil {
						// a jump-ahead must carry the votes of a later round of the state machine's height
						j := v.JumpAheadRoundView
						if prevK != nil && (j.Height < prevK.SMReH || (j.Height == prevK.SMReH && j.Round <= prevK.SMReR)) {
							cv = append(cv, viol{"C11", "StateMachineVersionsIncrease", "RecvSM", "jumpBackwards",
								fmt.Sprintf("jump-ahead to %d/%d sent to a state machine at %d/%d", j.Height, j.Round, prevK.SMReH, prevK.SMReR)})
						}
					}
					for _, x := range cv {
						rn.emitViol(b.ID, i, st.Op, x)
					}
				}
				m := M{"sentVersion": nil}
				if v.VRV.Height != 0 {
					m["vrv"] = M{"h": v.VRV.Height, "r": v.VRV.Round, "ver": v.VRV.Version}
				} else {
					m["vrv"] = M{"h": 0, "r": 0, "ver": 0}
				}
				if v.JumpAheadRoundView != nil {
					m["jump"] = M{"h": v.JumpAheadRoundView.Height, "r": v.JumpAheadRoundView.Round}
				} else {
					m["jump"] = M{"h": 0, "r": 0}
				}
				delete(m, "sentVersion")
				gotRes = jsFull(canon(toAny(m)))
				if !r.waitCount("SMSent", r.count("SMSent")-1, 5*time.Second) {
				}
			case <-time.After(10 * time.Second):
				gotRes = "nothing-offered"
			}

		case "RecvGossip":
			select {
			case u := <-r.gossipOut:
				m := M{"C": u.Committing != nil, "V": u.Voting != nil, "N": u.NextRound != nil, "nilVoted": u.NilVotedRound != nil}
				gotRes = jsFull(canon(toAny(m)))
				// C11: per (height, round) versions increase and views grow
				{
					var cv []viol
					gsC.receive(w, u.Committing, true, "RecvGossip", &cv)
					gsC.receive(w, u.Voting, true, "RecvGossip", &cv)
					gsC.receive(w, u.NextRound, true, "RecvGossip", &cv)
					if u.NilVotedRound != nil {
						gsC.receive(w, u.NilVotedRound, false, "RecvGossip", &cv)
						rest := pendingNil[:0]
						for _, pn := range pendingNil {
							if pn.Height == u.NilVotedRound.Height && pn.Round == u.NilVotedRound.Round {
								if !subsetSigners(signerSets(w, pn.PrecommitProofs), signerSets(w, u.NilVotedRound.PrecommitProofs)) {
									cv = append(cv, viol{"C11", "ExitVotesDeliveredBeforeDrop", "RecvGossip", "nilVotedIncomplete",
										fmt.Sprintf("NilVotedRound %d/%d handed to gossip lacks precommits that ended the round", pn.Height, pn.Round)})
								}
								continue
							}
							rest = append(rest, pn)
						}
						pendingNil = rest
					}
					for _, x := range cv {
						rn.emitViol(b.ID, i, st.Op, x)
					}
				}
				// C05: everything handed to gossip is authentic
				var vs []viol
				for _, e := range []struct {
					n string
					v *tmconsensus.VersionedRoundView
				}{{"gossip.Committing", u.Committing}, {"gossip.Voting", u.Voting}, {"gossip.NextRound", u.NextRound}, {"gossip.NilVotedRound", u.NilVotedRound}} {
					if e.v == nil || e.v.Height == 0 {
						continue
					}
					if vsID := o.chainVS(e.v.Height); vsID != "" {
						o.checkFull(e.n+".prevotes", "prevote", e.v.Height, e.v.Round, vsID, e.v.PrevoteProofs, "RecvGossip", &vs)
						o.checkFull(e.n+".precommits", "precommit", e.v.Height, e.v.Round, vsID, e.v.PrecommitProofs, "RecvGossip", &vs)
					}
				}
				for _, v := range vs {
					rn.emitViol(b.ID, i, st.Op, v)
				}
			case <-time.After(10 * time.Second):
				gotRes = "nothing-offered"
			}

		default:
			rn.out.Emit(vc.M{"kind": "inconclusive", "beh": b.ID, "step": i, "why": "unknown op " + st.Op})
			return
		}

		// ---- the step is done on the real code; take the post-state at the kernel's linearization point
		var k *tmi.VerifKState
		if panicked == "" && alive {
			var ok bool
			k, ok = r.sync()
			if !ok {
				rn.nStopped++
				rn.out.Emit(vc.M{"kind": "stopped-serving", "beh": b.ID, "step": i, "op": st.Op, "args": st.Args})
				return
			}
			fetch = r.drainFetch()
		}
		_ = needK
		_ = fetch

		// ---- expected panic / death
		if diverged && panicked == "" {
			// free run: the model's expectation of a panic no longer applies
		} else if st.Pan != "" || panicked != "" {
			rn.out.Emit(vc.M{"kind": "panic", "beh": b.ID, "step": i, "op": st.Op, "args": st.Args,
				"expected": st.Pan, "got": panicked})
			if st.Pan != "" && panicked == "" {
				// the spec expects the process to die here; if it did not die in the caller goroutine
				// it dies in the kernel goroutine (whole process) -- reaching this line means it survived
				rn.nMismatch++
				rn.out.Emit(vc.M{"kind": "mismatch", "beh": b.ID, "step": i, "op": st.Op, "args": st.Args,
					"diff": []string{"spec expects panic: " + st.Pan + "; real code survived with result " + gotRes}})
			}
			return
		}

		// ---- result
		expRes := resString(st.Res)
		if st.CrashAt == 0 && !diverged {
			switch st.Op {
			case "Vote", "PH", "Replay", "CStart", "CFinish", "CAbandon", "CStartPH", "CFinishPH":
				if expRes != gotRes {
					rn.nMismatch++
					rn.out.Emit(vc.M{"kind": "mismatch", "beh": b.ID, "step": i, "op": st.Op, "args": st.Args,
						"diff": []string{"result: spec=" + expRes + " real=" + gotRes}})
				}
			case "SMEnter", "RecvSM", "RecvGossip":
				var ea any
				must(json.Unmarshal(st.Res, &ea))
				if m, ok := ea.(map[string]any); ok {
					delete(m, "sentVersion")
				}
				want := jsFull(canon(ea))
				got := gotRes
				if st.Op == "SMEnter" {
					var ga any
					must(json.Unmarshal([]byte(gotRes), &ga))
					// tuples are ordered on both sides here
					want, got = jsFull(ea), jsFull(ga)
				}
				if want != got {
					rn.nMismatch++
					rn.out.Emit(vc.M{"kind": "mismatch", "beh": b.ID, "step": i, "op": st.Op, "args": st.Args,
						"diff": []string{"result: spec=" + want + " real=" + got}})
				}
			}
		}

		// ---- predicates on the real state
		var vs []viol
		o.evaluate(r, k, prevK, st.Op, &vs)
		// C05 inertness: a vote message without any authentic entry
		if st.Op == "Vote" && prevK != nil {
			var a voteArgs
			must(json.Unmarshal(st.Args, &a))
			anyOK := false
			classes := map[string]struct{}{}
			for _, es := range a.Proofs {
				for _, e := range es {
					if e.Cls == "ok" && e.Pos >= 1 {
						anyOK = true
					}
					classes[fmt.Sprintf("%s/%d", e.Cls, min(e.Pos, 1))] = struct{}{}
				}
			}
			if !anyOK {
				cl := make([]string, 0, len(classes))
				for c := range classes {
					cl = append(cl, c)
				}
				sort.Strings(cl)
				cls := strings.Join(cl, ",")
				if gotRes == "Accepted" || gotRes == "FutureVerified" {
					vs = append(vs, viol{"C05", "InvalidIsInert", "Vote", "accepted:" + cls,
						fmt.Sprintf("a %s message for %d/%d without any authentic signature was reported %s", a.Kind, a.H, a.R, gotRes)})
				}
				before := canon(toAny(M{"C": absView(w, &prevK.C), "V": absView(w, &prevK.V), "N": absView(w, &prevK.N),
					"vers": []any{prevK.C.Version, prevK.V.Version, prevK.N.Version}}))
				after := canon(toAny(M{"C": absView(w, &k.C), "V": absView(w, &k.V), "N": absView(w, &k.N),
					"vers": []any{k.C.Version, k.V.Version, k.N.Version}}))
				if jsFull(before) != jsFull(after) || stores.nPoints() != pointsBefore {
					var d []string
					diff("", before, after, &d)
					vs = append(vs, viol{"C05", "InvalidIsInert", "Vote", "changed:" + cls,
						fmt.Sprintf("a %s message for %d/%d without any authentic signature changed views/stores (%d store writes): %s",
							a.Kind, a.H, a.R, stores.nPoints()-pointsBefore, strings.Join(d, "; "))})
				}
			}
		}
		for _, v := range vs {
			rn.emitViol(b.ID, i, st.Op, v)
		}

		// ---- crash injection: keep only the first CrashAt store writes of this step
		if st.CrashAt > 0 {
			made := stores.nPoints() - pointsBefore
			crashAt := st.CrashAt
			if made != st.NWrites && !diverged {
				rn.nMismatch++
				rn.out.Emit(vc.M{"kind": "mismatch", "beh": b.ID, "step": i, "op": st.Op, "args": st.Args,
					"diff": []string{fmt.Sprintf("store writes in this step: spec=%d real=%d", st.NWrites, made)}})
				diverged = true
			}
			if diverged {
				// free run: the process still dies inside this step, after the write the model named or after the last
				// write the real step made; without any write there is no crash point and the run goes on
				if made == 0 {
					prevK = k
					continue
				}
				if crashAt > made {
					crashAt = made
				}
			}
			r.stop()
			stores = stores.rebuild(w.HashScheme, pointsBefore+crashAt)
			keepCommitted := o.committed
			keepEarly := o.filedEarly
			r = newRig(w, stores)
			o = newOracle(w)
			o.filedEarly = keepEarly
			// durable position at the moment of the crash
			if vh, vr, chh, cr, err := stores.cur.ms.NetworkHeightRound(context.Background()); err == nil {
				o.lastNHR, o.haveNHR = [4]uint64{vh, uint64(vr), chh, uint64(cr)}, true
				// C10: the durable committed chain is never behind the durable position -- every height up to
				// the recorded committing height has its committed header on disk at every crash point
				for h := uint64(1); h <= chh; h++ {
					if _, err := stores.cur.hs.LoadCommittedHeader(context.Background(), h); err != nil {
						rn.emitViol(b.ID, i, st.Op, viol{"C10", "DurableChainCoversPosition", st.Op, "header-missing",
							fmt.Sprintf("after a crash at store write %d of this step the mirror store records committing height %d, but the committed header store has no header at height %d", st.CrashAt, chh, h)})
						// the same durable state seen as C04's "heights advance one at a time without gaps": the node will resume
						// above a height it never recorded
						rn.emitViol(b.ID, i, st.Op, viol{"C04", "NoGaps", st.Op, "durable-position-ahead-of-chain",
							fmt.Sprintf("a crash at store write %d of this step leaves the committing position at height %d while the committed chain on disk ends below it (no header at height %d): the height is skipped for good", st.CrashAt, chh, h)})
						break
					}
				}
			}
			// what had been durably committed stays the reference for C04/C10
			ctx := context.Background()
			for h := range keepCommitted {
				if c, err := stores.cur.hs.LoadCommittedHeader(ctx, h); err == nil {
					o.committed[h] = string(c.Header.Hash)
					stores.hdrSaves[h] = []string{string(c.Header.Hash)}
				}
			}
			alive = false
			prevK = nil
			// compare the stores with the spec's expectation
			var ea any
			must(json.Unmarshal(st.Exp, &ea))
			want := canon(ea)
			got := canon(toAny(M{"down": true, "st": r.absStores()}))
			if !diverged && jsFull(want) != jsFull(got) {
				var d []string
				diff("", want, got, &d)
				rn.nMismatch++
				rn.out.Emit(vc.M{"kind": "mismatch", "beh": b.ID, "step": i, "op": st.Op, "args": st.Args, "diff": d})
				// the stores the process left behind are not the ones the model predicts: the restart that follows is a
				// free run, judged by the predicates alone
				diverged = true
			}
			continue
		}

		// ---- state comparison with the spec
		var ea any
		must(json.Unmarshal(st.Exp, &ea))
		want := canon(ea)
		got := canon(toAny(r.absState(k)))
		if wm, ok := want.(map[string]any); ok {
			if sm, ok := wm["sm"].(map[string]any); ok {
				delete(sm, "hc")
			}
		}
		if !diverged && jsFull(want) != jsFull(got) {
			var d []string
			diff("", want, got, &d)
			rn.nMismatch++
			rn.out.Emit(vc.M{"kind": "mismatch", "beh": b.ID, "step": i, "op": st.Op, "args": st.Args, "diff": d})
			// the model no longer predicts this run: the remaining inputs are still delivered and the
			// property predicates (which do not depend on the model) keep being evaluated on the real code
			diverged = true
		}
		rn.stateKeys[jsFull(got)] = struct{}{}
		rn.trace.Emit(vc.M{"beh": b.ID, "step": i, "op": st.Op, "res": gotRes, "st": got})
		if prevK != nil && k.NilVoted != nil && (prevK.NilVoted == nil || prevK.NilVoted.Round != k.NilVoted.Round || prevK.NilVoted.Height != k.NilVoted.Height) {
			for _, pn := range pendingNil {
				superseded[[2]uint64{pn.Height, uint64(pn.Round)}] = true
			}
			pendingNil = append(pendingNil, k.NilVoted.Clone())
		}
		if st.Op == "Restart" || st.Op == "Boot" {
			smC, gsC = newConsumer("StateMachine"), newConsumer("Gossip")
			pendingNil = nil
		}
		prevK = k
	}

	// ---- inputs have stopped: let both consumers read until nothing is offered, then they must be current (C11)
	if !alive || prevK == nil || os.Getenv("VERIF_DRAIN") == "0" {
		return
	}
	k := prevK
	var cv []viol
	for n := 0; n < 64 && !(k.SMOut.None && k.GSOut.None); n++ {
		select {
		case v := <-r.smViewOut:
			if v.VRV.Height != 0 {
				vv := v.VRV
				smC.receive(w, &vv, true, "Drain", &cv)
			}
		case u := <-r.gossipOut:
			gsC.receive(w, u.Committing, true, "Drain", &cv)
			gsC.receive(w, u.Voting, true, "Drain", &cv)
			gsC.receive(w, u.NextRound, true, "Drain", &cv)
			if u.NilVotedRound != nil {
				rest := pendingNil[:0]
				for _, pn := range pendingNil {
					if pn.Height == u.NilVotedRound.Height && pn.Round == u.NilVotedRound.Round &&
						subsetSigners(signerSets(w, pn.PrecommitProofs), signerSets(w, u.NilVotedRound.PrecommitProofs)) {
						continue
					}
					rest = append(rest, pn)
				}
				pendingNil = rest
			}
		case <-time.After(2 * time.Second):
			rn.out.Emit(vc.M{"kind": "inconclusive", "beh": b.ID, "step": len(b.Steps), "why": "kernel reports pending output but nothing arrives on the channels"})
			return
		}
		var ok bool
		k, ok = r.sync()
		if !ok {
			return
		}
	}
	if !(k.SMOut.None && k.GSOut.None) {
		rn.out.Emit(vc.M{"kind": "inconclusive", "beh": b.ID, "step": len(b.Steps), "why": "outputs still pending after 64 reads"})
		return
	}
	gsC.current(w, &k.V, "Quiescence", "voting", &cv)
	gsC.current(w, &k.N, "Quiescence", "next-round", &cv)
	if k.C.Height > 0 {
		gsC.current(w, &k.C, "Quiescence", "committing", &cv)
	}
	for _, pn := range pendingNil {
		cl, why := "nilVotedNeverSent", ""
		if superseded[[2]uint64{pn.Height, uint64(pn.Round)}] {
			cl, why = "nilVotedNeverSent:superseded", " (the next round ended in a nil commit too before gossip had read this one: the view manager's single slot was overwritten)"
		}
		cv = append(cv, viol{"C11", "ExitVotesDeliveredBeforeDrop", "Quiescence", cl,
			fmt.Sprintf("round %d/%d ended in a nil commit but its final precommits never reached gossip%s", pn.Height, pn.Round, why)})
	}
	if k.SMReH > 0 {
		// the state machine is entitled to the view of the round it is in, when the mirror still has it
		for _, e := range []struct {
			n string
			v *tmconsensus.VersionedRoundView
		}{{"voting", &k.V}, {"committing", &k.C}, {"next-round", &k.N}} {
			if e.v.Height == k.SMReH && e.v.Round == k.SMReR {
				smC.current(w, e.v, "Quiescence", e.n, &cv)
			}
		}
	}
	for _, x := range cv {
		rn.emitViol(b.ID, len(b.Steps), "Quiescence", x)
	}
}

func classOfPanic(msg string) string {
	m := msg
	for _, cut := range []string{": ", " ("} {
		_ = cut
	}
	// keep the text, drop digits and hex so that the class is stable
	var b strings.Builder
	for _, c := range m {
		if c >= '0' && c <= '9' {
			continue
		}
		b.WriteRune(c)
	}
	out := b.String()
	if len(out) > 100 {
		out = out[:100]
	}
	return out
}

func must(err error) {
	if err != nil {
		panic(err)
	}
}

// TestVerifMirrorWorld prints the real hash order of the world's headers (constant Rank of the spec).
func TestVerifMirrorWorld(t *testing.T) {
	var def vc.WorldDef
	b, err := os.ReadFile(os.Getenv("VERIF_WORLD"))
	must(err)
	must(json.Unmarshal(b, &def))
	w := vc.NewWorld(def)
	out := vc.Open("VERIF_OUT")
	defer out.Close()
	out.Emit(vc.M{"kind": "rank", "rank": w.Rank()})
}

// TestVerifMirrorReplay replays the behaviours of $VERIF_IN (lines $VERIF_FROM..$VERIF_TO).
func TestVerifMirrorReplay(t *testing.T) {
	var def vc.WorldDef
	b, err := os.ReadFile(os.Getenv("VERIF_WORLD"))
	must(err)
	must(json.Unmarshal(b, &def))
	w := vc.NewWorld(def)
	out := vc.Open("VERIF_OUT")
	defer out.Close()
	trace := vc.Open("VERIF_TRACE")
	defer trace.Close()

	behs := vc.ReadNDJSON[behaviour]("VERIF_IN")
	from, to := vc.EnvInt("VERIF_FROM", 0), vc.EnvInt("VERIF_TO", len(behs))
	if to > len(behs) {
		to = len(behs)
	}
	rn := &runner{t: t, w: w, out: out, trace: trace, opSeen: map[string]int{}, stateKeys: map[string]struct{}{}}
	for i := from; i < to; i++ {
		if rn.nStopped >= 2 {
			// the mirror stopped serving twice: that is established, and every further case costs the full time-outs
			out.Emit(vc.M{"kind": "cut-short", "at": i, "why": "the mirror stopped serving in two behaviours"})
			break
		}
		rn.nBeh++
		rn.runBehaviour(behs[i])
		out.Emit(vc.M{"kind": "done", "beh": behs[i].ID, "index": i})
		out.Flush()
	}
	out.Emit(vc.M{"kind": "summary", "behaviours": rn.nBeh, "steps": rn.nSteps, "mismatches": rn.nMismatch,
		"violations": rn.nViol, "ops": rn.opSeen, "distinct_states": len(rn.stateKeys)})
}
