//go:build verif

package tmmirror

import "github.com/gordian-engine/gordian/tm/tmengine/internal/tmmirror/internal/tmi"

// VerifKernel exposes the kernel pointer (identity only) to the /verif harness.
func (m *Mirror) VerifKernel() *tmi.Kernel { return m.k }

// VerifSetGate installs the scheduler gate used between the two phases of Handle* calls.
func VerifSetGate(f func(point string)) { verifGateHook = f }
