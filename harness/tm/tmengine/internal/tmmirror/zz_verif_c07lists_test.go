package tmmirror

// C07, forged validator LISTS: a proposed header whose ValidatorSet / NextValidatorSet carry the right hashes (so the block
// hash and the proposer's signature stay valid) but another list of validators.  The world cannot express this in
// Mirror.tla (two header values with one hash), so this is a scripted conformance case outside the TLC-generated behaviours:
// the views must always use lists that match the hashes covered by the committed block hash.

import (
	"bytes"
	"context"
	"encoding/json"
	"os"
	"testing"
	"time"

	vc "github.com/gordian-engine/gordian/internal/verifcommon"
	"github.com/gordian-engine/gordian/tm/tmconsensus"
)

func TestVerifC07Lists(t *testing.T) {
	var def vc.WorldDef
	b, err := os.ReadFile(os.Getenv("VERIF_WORLD"))
	must(err)
	must(json.Unmarshal(b, &def))
	w := vc.NewWorld(def)
	out := vc.Open("VERIF_OUT")
	defer out.Close()

	for _, variant := range []string{"nvs-forged-first", "nvs-honest-first", "vs-forged-first"} {
		stores := newRecStores(w.HashScheme)
		r := newRig(w, stores)
		must(r.start())
		ctx, cancel := context.WithTimeout(r.ctx, 20*time.Second)

		honest := w.ProposedHeader("A1", 0, 1, "ok", true)
		forged := w.ProposedHeader("A1", 0, 1, "ok", true)
		other := w.Valsets["F"]
		switch variant {
		case "nvs-forged-first", "nvs-honest-first":
			forged.Header.NextValidatorSet.Validators = other.Validators
			forged.Header.NextValidatorSet.PubKeys = other.PubKeys
		case "vs-forged-first":
			forged.Header.ValidatorSet.Validators = other.Validators
			forged.Header.ValidatorSet.PubKeys = other.PubKeys
		}
		order := []tmconsensus.ProposedHeader{forged, honest}
		if variant == "nvs-honest-first" {
			order = []tmconsensus.ProposedHeader{honest, forged}
		}
		var results []string
		for _, ph := range order {
			results = append(results, phResNames[r.m.HandleProposedHeader(ctx, ph)])
		}
		proofs := w.SparseProofs("precommit", 1, 0, w.Def.Genesis, map[string][]vc.Entry{"A1": {{Pos: 1, Cls: "ok"}, {Pos: 2, Cls: "ok"}, {Pos: 3, Cls: "ok"}}})
		res := r.m.HandlePrecommitProofs(ctx, tmconsensus.PrecommitSparseProof{Height: 1, Round: 0, PubKeyHash: w.PKH(w.Def.Genesis), Proofs: proofs})
		k, ok := r.sync()
		rec := vc.M{"kind": "c07lists", "variant": variant, "ph_results": results, "precommit_result": voteResNames[res], "synced": ok}
		if ok {
			rec["votingH"] = k.V.Height
			check := func(name string, vs tmconsensus.ValidatorSet) {
				pkh, _ := w.HashScheme.PubKeys(tmconsensus.ValidatorsToPubKeys(vs.Validators))
				vph, _ := w.HashScheme.VotePowers(tmconsensus.ValidatorsToVotePowers(vs.Validators))
				rec[name+"_lists_match_hashes"] = len(vs.Validators) == 0 || (bytes.Equal(pkh, vs.PubKeyHash) && bytes.Equal(vph, vs.VotePowerHash))
				rec[name+"_n"] = len(vs.Validators)
			}
			check("voting", k.V.ValidatorSet)
			check("nextround", k.N.ValidatorSet)
			check("committing", k.C.ValidatorSet)
			for _, ph := range k.C.ProposedHeaders {
				check("committing_ph_nvs", ph.Header.NextValidatorSet)
				check("committing_ph_vs", ph.Header.ValidatorSet)
			}
		}
		out.Emit(rec)
		cancel()
		r.stop()
	}
}
