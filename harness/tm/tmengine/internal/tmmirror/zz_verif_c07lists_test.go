package tmmirror

// C07, forged validator LISTS: a proposed header whose ValidatorSet / NextValidatorSet carry the right hashes (so the block
// hash and the proposer's signature stay valid) but another list of validators.  The world cannot express this in
// Mirror.tla (two header values with one hash), so this is a scripted conformance case outside the TLC-generated behaviours:
// the views must always use lists that match the hashes covered by the committed block hash.

import (
	"bytes"
	"context"
	"encoding/json"
	"os"
	"testing"
	"time"

	vc "github.com/gordian-engine/gordian/internal/verifcommon"
	"github.com/gordian-engine/gordian/tm/tmconsensus"
	"github.com/gordian-engine/gordian/tm/tmengine/tmelink"
)

func TestVerifC07Lists(t *testing.T) {
	var def vc.WorldDef
	b, err := os.ReadFile(os.Getenv("VERIF_WORLD"))
	must(err)
	must(json.Unmarshal(b, &def))
	w := vc.NewWorld(def)
	out := vc.Open("VERIF_OUT")
	defer out.Close()

	type lcase struct{ hdr, variant string }
	var cases []lcase
	// A1 changes the validator set at the next height, B1 keeps it (next-set hashes equal the current set's hashes)
	for _, hdr := range []string{"A1", "B1"} {
		for _, v := range []string{"nvs-forged-first", "nvs-honest-first", "vs-forged-first", "replay-nvs-forged", "replay-vs-forged"} {
			cases = append(cases, lcase{hdr, v})
		}
	}
	for _, c := range cases {
		variant := c.variant
		stores := newRecStores(w.HashScheme)
		r := newRig(w, stores)
		must(r.start())
		ctx, cancel := context.WithTimeout(r.ctx, 20*time.Second)

		prop := 1
		if c.hdr == "B1" {
			prop = 2
		}
		honest := w.ProposedHeader(c.hdr, 0, prop, "ok", true)
		forged := w.ProposedHeader(c.hdr, 0, prop, "ok", true)
		other := w.Valsets["F"]
		switch variant {
		case "nvs-forged-first", "nvs-honest-first", "replay-nvs-forged":
			forged.Header.NextValidatorSet.Validators = other.Validators
			forged.Header.NextValidatorSet.PubKeys = other.PubKeys
		case "vs-forged-first", "replay-vs-forged":
			forged.Header.ValidatorSet.Validators = other.Validators
			forged.Header.ValidatorSet.PubKeys = other.PubKeys
		}
		var results []string
		full := map[string][]vc.Entry{c.hdr: {{Pos: 1, Cls: "ok"}, {Pos: 2, Cls: "ok"}, {Pos: 3, Cls: "ok"}}}
		if variant == "replay-nvs-forged" || variant == "replay-vs-forged" {
			// the forged copy arrives as a replayed header with a genuine commit proof
			proof := tmconsensus.CommitProof{Round: 0, PubKeyHash: w.PKH(w.Def.Genesis), Proofs: w.SparseProofs("precommit", 1, 0, w.Def.Genesis, full)}
			resp := make(chan tmelink.ReplayedHeaderResponse, 1)
			select {
			case r.replayIn <- tmelink.ReplayedHeaderRequest{Header: forged.Header, Proof: proof, Resp: resp}:
				select {
				case rr := <-resp:
					if rr.Err == nil {
						results = append(results, "replay:nil")
					} else {
						results = append(results, "replay:"+rr.Err.Error())
					}
				case <-time.After(10 * time.Second):
					results = append(results, "replay:no-response")
				}
			case <-time.After(10 * time.Second):
				results = append(results, "replay:not-taken")
			}
		} else {
			order := []tmconsensus.ProposedHeader{forged, honest}
			if variant == "nvs-honest-first" {
				order = []tmconsensus.ProposedHeader{honest, forged}
			}
			for _, ph := range order {
				results = append(results, phResNames[r.m.HandleProposedHeader(ctx, ph)])
			}
		}
		variant = c.hdr + ":" + variant
		proofs := w.SparseProofs("precommit", 1, 0, w.Def.Genesis, full)
		res := r.m.HandlePrecommitProofs(ctx, tmconsensus.PrecommitSparseProof{Height: 1, Round: 0, PubKeyHash: w.PKH(w.Def.Genesis), Proofs: proofs})
		k, ok := r.sync()
		rec := vc.M{"kind": "c07lists", "variant": variant, "ph_results": results, "precommit_result": voteResNames[res], "synced": ok}
		if ok {
			rec["votingH"] = k.V.Height
			check := func(name string, vs tmconsensus.ValidatorSet) {
				if len(vs.Validators) == 0 {
					rec[name+"_n"] = 0
					return
				}
				pkh, _ := w.HashScheme.PubKeys(tmconsensus.ValidatorsToPubKeys(vs.Validators))
				vph, _ := w.HashScheme.VotePowers(tmconsensus.ValidatorsToVotePowers(vs.Validators))
				rec[name+"_lists_match_hashes"] = len(vs.Validators) == 0 || (bytes.Equal(pkh, vs.PubKeyHash) && bytes.Equal(vph, vs.VotePowerHash))
				rec[name+"_n"] = len(vs.Validators)
			}
			check("voting", k.V.ValidatorSet)
			check("nextround", k.N.ValidatorSet)
			check("committing", k.C.ValidatorSet)
			for _, ph := range k.C.ProposedHeaders {
				check("committing_ph_nvs", ph.Header.NextValidatorSet)
				check("committing_ph_vs", ph.Header.ValidatorSet)
			}
		}
		out.Emit(rec)
		cancel()
		r.stop()
	}
}
