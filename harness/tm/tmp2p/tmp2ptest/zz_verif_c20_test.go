package tmp2ptest

// C20 conformance harness for the in-memory DaisyChainNetwork (overlaid into /repo/tm/tmp2p/tmp2ptest by
// /verif/bin/check; see /verif/spec/Relay.tla, Transport = "daisy").
//
// A line A - B - C is what DaisyChainNetwork builds by construction (each new connection is paired with
// the previous one only).  B's handler is scripted per TLC behaviour, A publishes, C's handler records
// what arrives.  Violation: a message seen by C's handler for which no handler of B returned
// FeedbackAccepted.  Absence of a relay is judged after a bounded wait and can only weaken the check.

import (
	"context"
	"fmt"
	"math/rand"
	"strconv"
	"sync"
	"testing"
	"time"

	"github.com/gordian-engine/gordian/gexchange"
	vc "github.com/gordian-engine/gordian/internal/verifcommon"
	"github.com/gordian-engine/gordian/tm/tmconsensus"
)

type c20Class struct {
	Dec  string `json:"dec"`
	Kind string `json:"kind"`
	Fb   int    `json:"fb"`
}

type c20Exp struct {
	Called bool   `json:"called"`
	F      int    `json:"f"`
	Res    string `json:"res"`
	Relay  bool   `json:"relay"`
}

type c20Step struct {
	Op  string  `json:"op"`
	M   string  `json:"m"`
	H   string  `json:"h"`
	Exp *c20Exp `json:"exp,omitempty"`
}

type c20Beh struct {
	Tr   string              `json:"tr"`
	Cls  map[string]c20Class `json:"cls"`
	Hist []c20Step           `json:"hist"`
	Idx  int                 `json:"idx"`
}

type c20MapRow struct {
	F     int    `json:"f"`
	Res   string `json:"res"`
	Daisy bool   `json:"daisy"`
}

func c20Verdict(h string, c c20Class) gexchange.Feedback {
	switch h {
	case "script":
		return gexchange.Feedback(uint8(c.Fb))
	case "rejectAll":
		return gexchange.FeedbackRejected
	case "acceptAll":
		return gexchange.FeedbackAccepted
	case "ignoreAllH":
		return gexchange.FeedbackIgnored
	}
	panic("c20: unknown handler kind " + h)
}

func c20IsHandler(h string) bool {
	return h == "script" || h == "rejectAll" || h == "acceptAll" || h == "ignoreAllH"
}

func c20FbName(f int) string {
	switch {
	case f == 0:
		return "unspecified"
	case f == 1:
		return "accepted"
	case f == 2:
		return "rejected"
	case f == 3:
		return "ignored"
	case f == 4:
		return "reject-and-disconnect"
	}
	return "out-of-range"
}

type c20VerdictRec struct {
	H   string
	F   int
	Seq int64
}

type c20Msg struct {
	ID       uint64
	Name     string
	Cls      c20Class
	Phase    string
	Block    int
	Scen     int
	Slot     string
	PubSeq   int64
	Verdicts []c20VerdictRec
	CHandler int64
}

type c20Interval struct {
	Begin, End int64
	Nil        bool // a nil handler may have been installed during the interval
}

type c20Env struct {
	mu       sync.Mutex
	seq      int64
	nextID   uint64
	msgs     map[uint64]*c20Msg
	swaps    []c20Interval
	blocks   [][]vc.M
	curBlock int
}

func (e *c20Env) evLocked(b int, kind string, f vc.M) int64 {
	e.seq++
	if b >= 0 {
		m := vc.M{"ev": kind, "seq": e.seq, "tr": "daisy", "m": "-", "h": "-", "hs": []string{}, "f": -1,
			"dec": "-", "kind": "-", "fb": -1, "via": "-", "cur": []string{}}
		for k, v := range f {
			m[k] = v
		}
		e.blocks[b] = append(e.blocks[b], m)
	}
	return e.seq
}

func (e *c20Env) ev(kind string, f vc.M) int64 {
	e.mu.Lock()
	defer e.mu.Unlock()
	return e.evLocked(e.curBlock, kind, f)
}

func (e *c20Env) newBlock(cur ...string) int {
	e.mu.Lock()
	defer e.mu.Unlock()
	e.blocks = append(e.blocks, nil)
	e.curBlock = len(e.blocks) - 1
	e.evLocked(e.curBlock, "reset", vc.M{"cur": cur})
	return e.curBlock
}

func (e *c20Env) newMsg(name string, c c20Class, phase string, scen int, slot string, traced bool) *c20Msg {
	e.mu.Lock()
	defer e.mu.Unlock()
	e.nextID++
	b := -1
	if traced {
		b = e.curBlock
	}
	m := &c20Msg{ID: e.nextID, Name: name, Cls: c, Phase: phase, Scen: scen, Slot: slot, Block: b}
	e.msgs[m.ID] = m
	return m
}

func (e *c20Env) waitFor(d time.Duration, cond func() bool) bool {
	deadline := time.Now().Add(d)
	for {
		e.mu.Lock()
		ok := cond()
		e.mu.Unlock()
		if ok {
			return true
		}
		if time.Now().After(deadline) {
			return false
		}
		time.Sleep(100 * time.Microsecond)
	}
}

type c20Handler struct {
	e    *c20Env
	node string
	kind string
}

func (h *c20Handler) handle(id uint64) gexchange.Feedback {
	e := h.e
	e.mu.Lock()
	defer e.mu.Unlock()
	m := e.msgs[id]
	if m == nil {
		return gexchange.FeedbackRejected
	}
	if h.node == "C" {
		if m.CHandler == 0 {
			m.CHandler = e.evLocked(m.Block, "arrive", vc.M{"m": strconv.FormatUint(id, 10), "via": "handler"})
		}
		return gexchange.FeedbackAccepted
	}
	f := c20Verdict(h.kind, m.Cls)
	s := e.evLocked(m.Block, "verdict", vc.M{"m": strconv.FormatUint(id, 10), "h": h.kind, "f": int(f)})
	m.Verdicts = append(m.Verdicts, c20VerdictRec{H: h.kind, F: int(f), Seq: s})
	return f
}

func (h *c20Handler) HandleProposedHeader(_ context.Context, ph tmconsensus.ProposedHeader) gexchange.Feedback {
	return h.handle(ph.Header.Height)
}
func (h *c20Handler) HandlePrevoteProofs(_ context.Context, p tmconsensus.PrevoteSparseProof) gexchange.Feedback {
	return h.handle(p.Height)
}
func (h *c20Handler) HandlePrecommitProofs(_ context.Context, p tmconsensus.PrecommitSparseProof) gexchange.Feedback {
	return h.handle(p.Height)
}

func (e *c20Env) handlerFor(kind string) tmconsensus.ConsensusHandler {
	if kind == "nil" {
		return nil
	}
	return &c20Handler{e: e, node: "B", kind: kind}
}

type c20Line struct {
	e       *c20Env
	ctx     context.Context
	cancel  context.CancelFunc
	net     *DaisyChainNetwork
	a, b, c *DaisyChainConnection
	bSlot   string
}

func c20NewLine(t *testing.T, e *c20Env) (*c20Line, error) {
	ctx, cancel := context.WithCancel(context.Background())
	l := &c20Line{e: e, ctx: ctx, cancel: cancel, bSlot: "nil"}
	l.net = NewDaisyChainNetwork(t, ctx)
	var err error
	if l.a, err = l.net.Connect(ctx); err != nil {
		cancel()
		return nil, err
	}
	if l.b, err = l.net.Connect(ctx); err != nil {
		cancel()
		return nil, err
	}
	if l.c, err = l.net.Connect(ctx); err != nil {
		cancel()
		return nil, err
	}
	l.c.SetConsensusHandler(ctx, &c20Handler{e: e, node: "C"})
	return l, nil
}

func (l *c20Line) close() {
	l.cancel()
	l.net.Wait()
}

func (l *c20Line) publish(m *c20Msg) {
	e := l.e
	e.mu.Lock()
	m.PubSeq = e.evLocked(m.Block, "publish", vc.M{"m": strconv.FormatUint(m.ID, 10), "dec": m.Cls.Dec, "kind": m.Cls.Kind, "fb": m.Cls.Fb})
	e.mu.Unlock()
	bc := l.a.ConsensusBroadcaster()
	switch m.Cls.Kind {
	case "ph":
		bc.OutgoingProposedHeaders() <- tmconsensus.ProposedHeader{Header: tmconsensus.Header{Height: m.ID}}
	case "prevote":
		bc.OutgoingPrevoteProofs() <- tmconsensus.PrevoteSparseProof{Height: m.ID, PubKeyHash: "c20"}
	case "precommit":
		bc.OutgoingPrecommitProofs() <- tmconsensus.PrecommitSparseProof{Height: m.ID, PubKeyHash: "c20"}
	default:
		panic("c20: daisy cannot carry kind " + m.Cls.Kind)
	}
}

func (l *c20Line) setB(kinds []string, call func() string) {
	e := l.e
	e.mu.Lock()
	s := e.evLocked(e.curBlock, "swap_begin", vc.M{"hs": kinds})
	hasNil := false
	for _, k := range kinds {
		if k == "nil" {
			hasNil = true
		}
	}
	e.swaps = append(e.swaps, c20Interval{Begin: s, Nil: hasNil})
	i := len(e.swaps) - 1
	e.mu.Unlock()
	last := call()
	e.mu.Lock()
	e.swaps[i].End = e.evLocked(e.curBlock, "swap_end", vc.M{"h": last})
	e.mu.Unlock()
	l.bSlot = last
}

func TestVerifC20Daisy(t *testing.T) {
	out := vc.Open("VERIF_OUT")
	defer out.Close()
	trace := vc.Open("VERIF_TRACE")
	defer trace.Close()
	seed := int64(vc.EnvInt("VERIF_SEED", 1))
	rng := rand.New(rand.NewSource(seed))
	stressMs := vc.EnvInt("VERIF_STRESS_MS", 1000)
	stressTraced := vc.EnvInt("VERIF_STRESS_TRACED", 1500)
	maxBeh := vc.EnvInt("VERIF_MAX_BEH", 2000)
	nilWait := time.Duration(vc.EnvInt("VERIF_NIL_WAIT_MS", 100)) * time.Millisecond

	e := &c20Env{nextID: 1000, msgs: map[uint64]*c20Msg{}, curBlock: -1}
	summary := vc.M{"kind": "summary", "level": "daisy"}
	ops := map[string]int{}

	// ---- (a) the daisy relay rule for every feedback value: B's handler returns f, C must see the
	// message iff f == Accepted (table exported from RelayMap.tla)
	rows := vc.ReadNDJSON[c20MapRow]("VERIF_MAP")
	mapChecked := 0
	if len(rows) > 0 {
		l, err := c20NewLine(t, e)
		if err != nil {
			out.Emit(vc.M{"kind": "error", "what": err.Error()})
			t.Fatal(err)
		}
		e.newBlock("nil")
		l.setB([]string{"script"}, func() string { l.b.SetConsensusHandler(l.ctx, e.handlerFor("script")); return "script" })
		kinds := []string{"ph", "prevote", "precommit"}
		var ms []*c20Msg
		for _, r := range rows {
			m := e.newMsg("map", c20Class{"ok", kinds[r.F%3], r.F}, "map", -1, "script", true)
			ms = append(ms, m)
			l.publish(m)
			if !e.waitFor(2*time.Second, func() bool { return len(m.Verdicts) > 0 }) {
				out.Emit(vc.M{"kind": "error", "what": fmt.Sprintf("daisy map: B's handler not invoked for f=%d", r.F)})
			}
			if r.Daisy {
				e.waitFor(time.Second, func() bool { return m.CHandler != 0 })
			}
			mapChecked++
		}
		time.Sleep(30 * time.Millisecond)
		l.close()
	}
	summary["map_rows"] = mapChecked

	// ---- (b) control: B accepts, C must receive each kind
	controlOK := 0
	{
		l, err := c20NewLine(t, e)
		if err != nil {
			out.Emit(vc.M{"kind": "error", "what": err.Error()})
			t.Fatal(err)
		}
		e.newBlock("nil")
		l.setB([]string{"acceptAll"}, func() string { l.b.SetConsensusHandler(l.ctx, e.handlerFor("acceptAll")); return "acceptAll" })
		for _, k := range []string{"ph", "prevote", "precommit"} {
			m := e.newMsg("ctl", c20Class{"ok", k, 1}, "control", -1, "acceptAll", true)
			l.publish(m)
			if e.waitFor(3*time.Second, func() bool { return m.CHandler != 0 }) {
				controlOK++
			}
		}
		l.close()
	}
	summary["control_ok"] = controlOK

	// ---- (c) replay of the TLC behaviours, a fresh line per behaviour
	replayed, missedRelay, unresolved := 0, 0, 0
	distinct := map[string]bool{}
	for _, b := range vc.ReadNDJSON[c20Beh]("VERIF_IN") {
		if b.Tr != "daisy" || replayed >= maxBeh {
			continue
		}
		replayed++
		func() {
			defer func() {
				if r := recover(); r != nil {
					out.Emit(vc.M{"kind": "panic", "beh": b.Idx, "what": fmt.Sprint(r)})
				}
			}()
			l, err := c20NewLine(t, e)
			if err != nil {
				out.Emit(vc.M{"kind": "error", "what": err.Error()})
				return
			}
			defer l.close()
			e.newBlock("nil")
			for si, s := range b.Hist {
				ops[s.Op]++
				switch s.Op {
				case "init", "arrive":
				case "sethandler":
					h := s.H
					l.setB([]string{h}, func() string { l.b.SetConsensusHandler(l.ctx, e.handlerFor(h)); return h })
				case "disconnect":
					e.ev("disconnect", nil)
					l.b.Disconnect()
					<-l.b.Disconnected()
					l.bSlot = "nil"
				case "validate":
					cl := b.Cls[s.M]
					m := e.newMsg(s.M, cl, "replay", b.Idx, l.bSlot, true)
					l.publish(m)
					if c20IsHandler(l.bSlot) {
						if !e.waitFor(2*time.Second, func() bool { return len(m.Verdicts) > 0 }) {
							unresolved++
						}
					}
					e.mu.Lock()
					acc := len(m.Verdicts) > 0 && m.Verdicts[0].F == 1
					e.mu.Unlock()
					switch {
					case acc:
						if !e.waitFor(time.Second, func() bool { return m.CHandler != 0 }) {
							missedRelay++
						}
					case l.bSlot == "nil":
						// as-is: passes through within microseconds; repaired code: never
						e.waitFor(nilWait, func() bool { return m.CHandler != 0 })
					}
					e.mu.Lock()
					got := c20Exp{Called: len(m.Verdicts) > 0, F: -1, Relay: m.CHandler != 0}
					if got.Called {
						got.F = m.Verdicts[0].F
					}
					e.mu.Unlock()
					switch {
					case got.Called && got.Relay:
						got.Res = "accept"
					case got.Called:
						got.Res = "drop"
					case got.Relay:
						got.Res = "passthrough"
					default:
						got.Res = "none"
					}
					distinct[fmt.Sprintf("%s/%v/%s", l.bSlot, cl, got.Res)] = true
					if s.Exp != nil && (got.Called != s.Exp.Called || got.F != s.Exp.F) {
						out.Emit(vc.M{"kind": "mismatch", "site": "daisychain", "beh": b.Idx, "step": si, "h": s.H, "slot": l.bSlot, "cls": cl, "want": s.Exp, "got": got})
					}
				default:
					out.Emit(vc.M{"kind": "error", "what": "unknown op " + s.Op})
				}
			}
			time.Sleep(2 * time.Millisecond)
		}()
	}
	summary["replayed"], summary["missed_relay"], summary["unresolved"] = replayed, missedRelay, unresolved
	summary["distinct"] = len(distinct)
	summary["ops"] = ops

	// ---- (d) stress: B's handler is replaced in a tight loop while A floods
	stressPublished, swapsDone := 0, 0
	if stressMs > 0 {
		l, err := c20NewLine(t, e)
		if err != nil {
			out.Emit(vc.M{"kind": "error", "what": err.Error()})
			t.Fatal(err)
		}
		e.newBlock("nil")
		kinds := []string{"rejectAll", "ignoreAllH", "script", "nil"}
		classes := []c20Class{{"ok", "prevote", 1}, {"ok", "ph", 4}, {"ok", "precommit", 255}, {"ok", "prevote", 2}, {"ok", "ph", 3}, {"ok", "precommit", 0}, {"ok", "prevote", 5}}
		stop := make(chan struct{})
		var wg sync.WaitGroup
		wg.Add(1)
		frng := rand.New(rand.NewSource(seed + 7))
		go func() {
			defer wg.Done()
			for i := 0; ; i++ {
				select {
				case <-stop:
					return
				default:
				}
				m := e.newMsg("x", classes[frng.Intn(len(classes))], "stress", -1, "stress", i < stressTraced)
				l.publish(m)
				stressPublished++
				if i%8 == 0 {
					time.Sleep(50 * time.Microsecond)
				}
			}
		}()
		l.setB(kinds, func() string {
			t0 := time.Now()
			last := "nil"
			for time.Since(t0) < time.Duration(stressMs)*time.Millisecond {
				last = kinds[rng.Intn(len(kinds))]
				l.b.SetConsensusHandler(l.ctx, e.handlerFor(last))
				swapsDone++
			}
			close(stop)
			wg.Wait()
			time.Sleep(100 * time.Millisecond) // drain
			return last
		})
		time.Sleep(100 * time.Millisecond)
		l.close()
	}
	summary["stress_published"], summary["stress_swaps"] = stressPublished, swapsDone

	// ---- final sweep
	e.mu.Lock()
	arrived, accepted, verdicts, viol := 0, 0, 0, 0
	perPhase := map[string]int{}
	perClass := map[string]int{}
	for _, m := range e.msgs {
		verdicts += len(m.Verdicts)
		if m.CHandler == 0 {
			continue
		}
		arrived++
		perPhase[m.Phase]++
		acc := false
		for _, v := range m.Verdicts {
			if v.F == 1 {
				acc = true
			}
		}
		if acc {
			accepted++
			continue
		}
		class := "handler-not-invoked"
		switch {
		case len(m.Verdicts) > 0:
			class = "verdict-" + c20FbName(m.Verdicts[0].F)
		case m.Slot == "nil":
			class = "no-handler"
		default:
			for _, iv := range e.swaps {
				if iv.Nil && iv.Begin < m.CHandler && (iv.End == 0 || iv.End > m.PubSeq) {
					class = "no-handler"
				}
			}
		}
		viol++
		perClass[class]++
		if perClass[class] <= 25 {
			out.Emit(vc.M{"kind": "violation", "predicate": "RelayedOnlyIfAccepted", "site": "daisychain", "class": class,
				"phase": m.Phase, "beh": m.Scen, "msg": m.Name, "id": m.ID, "cls": m.Cls, "slot": m.Slot, "verdicts": m.Verdicts})
		}
	}
	// FeedbackMapping on the daisy transport: relayed iff Accepted, for every value of the table
	for _, m := range e.msgs {
		if m.Phase != "map" {
			continue
		}
		if (m.CHandler != 0) && m.Cls.Fb != 1 {
			// already reported above as RelayedOnlyIfAccepted/verdict-*; add the mapping predicate
			out.Emit(vc.M{"kind": "violation", "predicate": "FeedbackMapping", "site": "daisychain-handleMessage",
				"class": "feedback-" + c20FbName(m.Cls.Fb) + "-relayed", "f": m.Cls.Fb})
		}
	}
	for _, blk := range e.blocks {
		for _, ev := range blk {
			trace.Emit(ev)
		}
	}
	nblocks := len(e.blocks)
	e.mu.Unlock()
	summary["messages"], summary["arrived"], summary["arrived_accepted"], summary["b_verdicts"] = len(e.msgs), arrived, accepted, verdicts
	summary["arrived_per_phase"] = perPhase
	summary["violations"] = viol
	summary["violations_per_class"] = perClass
	summary["trace_blocks"], summary["trace_events"] = nblocks, trace.Count()
	out.Emit(summary)
}
