package tmlibp2p

// C20 conformance harness for the libp2p transport (overlaid into /repo/tm/tmp2p/tmlibp2p by
// /verif/bin/check; see /verif/spec/Relay.tla).
//
//   (a) TestVerifC20Map: exchangeFeedbackToLibp2p for every uint8 value against the table exported
//       from RelayMap.tla, and libp2pConsensusMessageValidator / ignoreMessage called directly for every
//       (slot, message class) pair of the exported behaviours.
//   (b) TestVerifC20Net: three real libp2p hosts on loopback in a line A - B - C (connection gaters on
//       A and C admit only B), B's handler scripted per behaviour, A publishes, C records what arrives.
//       Phases: startup window (A floods while NewConnection(B) runs), control (B accepts -> C must
//       receive, else the run is vacuous), replay of the TLC behaviours, swap stress (tight loop of
//       SetConsensusHandler on B with handlers that never accept while A floods).
//
// Absence of a relay is judged after a bounded wait and can only weaken the check.  The violation is a
// message observed at C for which no handler of B returned FeedbackAccepted.

import (
	"context"
	"encoding/json"
	"fmt"
	"io"
	"log/slog"
	"math/rand"
	"strconv"
	"strings"
	"sync"
	"testing"
	"time"

	"github.com/gordian-engine/gordian/gcrypto"
	"github.com/gordian-engine/gordian/gexchange"
	vc "github.com/gordian-engine/gordian/internal/verifcommon"
	"github.com/gordian-engine/gordian/tm/tmcodec"
	"github.com/gordian-engine/gordian/tm/tmcodec/tmjson"
	"github.com/gordian-engine/gordian/tm/tmconsensus"
	"github.com/libp2p/go-libp2p"
	pubsub "github.com/libp2p/go-libp2p-pubsub"
	pubsubpb "github.com/libp2p/go-libp2p-pubsub/pb"
	"github.com/libp2p/go-libp2p/core/control"
	"github.com/libp2p/go-libp2p/core/network"
	"github.com/libp2p/go-libp2p/core/peer"
	"github.com/libp2p/go-libp2p/core/protocol"
	"github.com/libp2p/go-libp2p/p2p/transport/tcp"
	ma "github.com/multiformats/go-multiaddr"
)

// ---------------------------------------------------------------- behaviours from TLC

type c20Class struct {
	Dec  string `json:"dec"`
	Kind string `json:"kind"`
	Fb   int    `json:"fb"`
}

type c20Exp struct {
	Called bool   `json:"called"`
	F      int    `json:"f"`
	Res    string `json:"res"`
	Relay  bool   `json:"relay"`
}

type c20Step struct {
	Op  string  `json:"op"`
	M   string  `json:"m"`
	H   string  `json:"h"`
	Exp *c20Exp `json:"exp,omitempty"`
}

type c20Beh struct {
	Tr   string              `json:"tr"`
	Cls  map[string]c20Class `json:"cls"`
	Hist []c20Step           `json:"hist"`
	Idx  int                 `json:"idx"`
}

type c20MapRow struct {
	F     int    `json:"f"`
	Res   string `json:"res"`
	Daisy bool   `json:"daisy"`
}

func c20Verdict(h string, c c20Class) gexchange.Feedback {
	switch h {
	case "script":
		return gexchange.Feedback(uint8(c.Fb))
	case "rejectAll":
		return gexchange.FeedbackRejected
	case "acceptAll":
		return gexchange.FeedbackAccepted
	case "ignoreAllH":
		return gexchange.FeedbackIgnored
	}
	panic("c20: unknown handler kind " + h)
}

func c20IsHandler(h string) bool {
	return h == "script" || h == "rejectAll" || h == "acceptAll" || h == "ignoreAllH"
}

func c20FbName(f int) string {
	switch {
	case f == 0:
		return "unspecified"
	case f == 1:
		return "accepted"
	case f == 2:
		return "rejected"
	case f == 3:
		return "ignored"
	case f == 4:
		return "reject-and-disconnect"
	}
	return "out-of-range"
}

func c20ResName(r pubsub.ValidationResult) string {
	switch r {
	case pubsub.ValidationAccept:
		return "accept"
	case pubsub.ValidationReject:
		return "reject"
	case pubsub.ValidationIgnore:
		return "ignore"
	}
	return fmt.Sprintf("other(%d)", int(r))
}

// ---------------------------------------------------------------- payloads

func c20Codec() tmjson.MarshalCodec {
	reg := new(gcrypto.Registry)
	gcrypto.RegisterEd25519(reg)
	return tmjson.MarshalCodec{CryptoRegistry: reg}
}

type c20RawID struct {
	VerifID uint64 `json:"VerifID"`
}

const c20UndecodablePrefix = "\x01c20-undecodable:"

// c20Raw builds the payload for the classes that cannot go through the typed outgoing channels.
func c20Raw(codec tmcodec.MarshalCodec, id uint64, c c20Class) []byte {
	switch c.Dec {
	case "undecodable":
		return []byte(c20UndecodablePrefix + strconv.FormatUint(id, 10))
	case "empty":
		b, _ := json.Marshal(c20RawID{VerifID: id})
		return b
	case "two":
		ph, err := codec.MarshalProposedHeader(tmconsensus.ProposedHeader{Header: tmconsensus.Header{Height: id}})
		if err != nil {
			panic(err)
		}
		pv, err := codec.MarshalPrevoteProof(tmconsensus.PrevoteSparseProof{Height: id, PubKeyHash: "c20"})
		if err != nil {
			panic(err)
		}
		return []byte(`{"ProposedHeader":` + string(ph) + `,"PrevoteProof":` + string(pv) + `}`)
	}
	var cm tmcodec.ConsensusMessage
	switch c.Kind {
	case "ph":
		cm.ProposedHeader = &tmconsensus.ProposedHeader{Header: tmconsensus.Header{Height: id}}
	case "prevote":
		cm.PrevoteProof = &tmconsensus.PrevoteSparseProof{Height: id, PubKeyHash: "c20"}
	case "precommit":
		cm.PrecommitProof = &tmconsensus.PrecommitSparseProof{Height: id, PubKeyHash: "c20"}
	default:
		panic("c20: bad kind " + c.Kind)
	}
	b, err := codec.MarshalConsensusMessage(cm)
	if err != nil {
		panic(err)
	}
	return b
}

// c20IDOf recovers the message id from a payload seen by a pubsub tracer.
func c20IDOf(codec tmcodec.MarshalCodec, data []byte) (uint64, bool) {
	if strings.HasPrefix(string(data), c20UndecodablePrefix) {
		id, err := strconv.ParseUint(string(data[len(c20UndecodablePrefix):]), 10, 64)
		return id, err == nil
	}
	var cm tmcodec.ConsensusMessage
	if err := codec.UnmarshalConsensusMessage(data, &cm); err == nil {
		switch {
		case cm.ProposedHeader != nil:
			return cm.ProposedHeader.Header.Height, true
		case cm.PrevoteProof != nil:
			return cm.PrevoteProof.Height, true
		case cm.PrecommitProof != nil:
			return cm.PrecommitProof.Height, true
		}
	}
	var r c20RawID
	if err := json.Unmarshal(data, &r); err == nil && r.VerifID != 0 {
		return r.VerifID, true
	}
	return 0, false
}

// ---------------------------------------------------------------- shared run state

type c20VerdictRec struct {
	H   string
	F   int
	Seq int64
}

type c20Msg struct {
	ID    uint64
	Name  string
	Cls   c20Class
	Phase string
	Block int // index into env.blocks, -1 if not traced
	Scen  int
	Slot  string // harness's belief of B's slot when publishing

	PubSeq    int64
	Verdicts  []c20VerdictRec
	BValidate int64
	BDeliver  int64
	BReject   int64
	BReason   string
	CRaw      int64
	CHandler  int64

	NoCompare bool // delivered in a swap window the code does not have (gate point never reached)

	entered chan struct{} // closed when B's handler has been entered (only if hold != nil)
	hold    chan struct{} // B's handler waits for this before returning
}

type c20Interval struct{ Begin, End int64 }

type c20Env struct {
	t     *testing.T
	codec tmjson.MarshalCodec

	mu       sync.Mutex
	seq      int64
	nextID   uint64
	msgs     map[uint64]*c20Msg
	swaps    []c20Interval
	blocks   [][]vc.M // trace events, one block per scenario / phase
	curBlock int
	dropped  map[int]bool
}

func newC20Env(t *testing.T) *c20Env {
	return &c20Env{t: t, codec: c20Codec(), nextID: 1000, msgs: map[uint64]*c20Msg{}, curBlock: -1, dropped: map[int]bool{}}
}

// ev appends a trace event to block b (under e.mu) and returns its sequence number.
func (e *c20Env) evLocked(b int, kind string, f vc.M) int64 {
	e.seq++
	if b >= 0 {
		m := vc.M{"ev": kind, "seq": e.seq, "tr": "libp2p", "m": "-", "h": "-", "hs": []string{}, "f": -1,
			"dec": "-", "kind": "-", "fb": -1, "via": "-", "cur": []string{}}
		for k, v := range f {
			m[k] = v
		}
		e.blocks[b] = append(e.blocks[b], m)
	}
	return e.seq
}

func (e *c20Env) ev(kind string, f vc.M) int64 {
	e.mu.Lock()
	defer e.mu.Unlock()
	return e.evLocked(e.curBlock, kind, f)
}

// newBlock starts a new trace block; cur is the set of slot values B may have right now.
func (e *c20Env) newBlock(traced bool, cur ...string) int {
	e.mu.Lock()
	defer e.mu.Unlock()
	if !traced {
		e.curBlock = -1
		return -1
	}
	e.blocks = append(e.blocks, nil)
	e.curBlock = len(e.blocks) - 1
	e.evLocked(e.curBlock, "reset", vc.M{"cur": cur})
	return e.curBlock
}

func (e *c20Env) newMsg(name string, c c20Class, phase string, scen int, slot string, traced bool) *c20Msg {
	e.mu.Lock()
	defer e.mu.Unlock()
	e.nextID++
	b := -1
	if traced {
		b = e.curBlock
	}
	m := &c20Msg{ID: e.nextID, Name: name, Cls: c, Phase: phase, Scen: scen, Slot: slot, Block: b}
	e.msgs[m.ID] = m
	return m
}

func (e *c20Env) get(id uint64) *c20Msg {
	return e.msgs[id]
}

func (e *c20Env) swapBegin(hs ...string) int {
	e.mu.Lock()
	defer e.mu.Unlock()
	s := e.evLocked(e.curBlock, "swap_begin", vc.M{"hs": hs})
	e.swaps = append(e.swaps, c20Interval{Begin: s})
	return len(e.swaps) - 1
}

func (e *c20Env) swapEnd(i int, h string) {
	e.mu.Lock()
	defer e.mu.Unlock()
	e.swaps[i].End = e.evLocked(e.curBlock, "swap_end", vc.M{"h": h})
}

func (e *c20Env) snapshot(m *c20Msg) c20Msg {
	e.mu.Lock()
	defer e.mu.Unlock()
	c := *m
	c.Verdicts = append([]c20VerdictRec(nil), m.Verdicts...)
	return c
}

// waitFor polls cond (evaluated under e.mu) until it holds or d elapses.
func (e *c20Env) waitFor(d time.Duration, cond func() bool) bool {
	deadline := time.Now().Add(d)
	for {
		e.mu.Lock()
		ok := cond()
		e.mu.Unlock()
		if ok {
			return true
		}
		if time.Now().After(deadline) {
			return false
		}
		time.Sleep(150 * time.Microsecond)
	}
}

// ---------------------------------------------------------------- handlers

// c20Handler is a scripted tmconsensus.ConsensusHandler.
type c20Handler struct {
	e    *c20Env
	node string // "A", "B", "C"
	kind string // handler kind for B
}

func (h *c20Handler) handle(id uint64) gexchange.Feedback {
	e := h.e
	switch h.node {
	case "A":
		return gexchange.FeedbackAccepted
	case "C":
		e.mu.Lock()
		if m := e.get(id); m != nil && m.CHandler == 0 {
			m.CHandler = e.evLocked(m.Block, "arrive", vc.M{"m": strconv.FormatUint(id, 10), "via": "handler"})
		}
		e.mu.Unlock()
		return gexchange.FeedbackAccepted
	}
	// B
	e.mu.Lock()
	m := e.get(id)
	e.mu.Unlock()
	if m == nil {
		return gexchange.FeedbackRejected
	}
	if m.hold != nil {
		close(m.entered)
		<-m.hold
	}
	f := c20Verdict(h.kind, m.Cls)
	e.mu.Lock()
	s := e.evLocked(m.Block, "verdict", vc.M{"m": strconv.FormatUint(id, 10), "h": h.kind, "f": int(f)})
	m.Verdicts = append(m.Verdicts, c20VerdictRec{H: h.kind, F: int(f), Seq: s})
	e.mu.Unlock()
	return f
}

func (h *c20Handler) HandleProposedHeader(_ context.Context, ph tmconsensus.ProposedHeader) gexchange.Feedback {
	return h.handle(ph.Header.Height)
}
func (h *c20Handler) HandlePrevoteProofs(_ context.Context, p tmconsensus.PrevoteSparseProof) gexchange.Feedback {
	return h.handle(p.Height)
}
func (h *c20Handler) HandlePrecommitProofs(_ context.Context, p tmconsensus.PrecommitSparseProof) gexchange.Feedback {
	return h.handle(p.Height)
}

func (e *c20Env) handlerFor(kind string) tmconsensus.ConsensusHandler {
	if kind == "nil" {
		return nil
	}
	return &c20Handler{e: e, node: "B", kind: kind}
}

// ---------------------------------------------------------------- pubsub tracer (instrumentation of the environment)

type c20Tracer struct {
	e    *c20Env
	node string // "B" or "C"
}

func (t *c20Tracer) note(msg *pubsub.Message, what string, reason string) {
	if msg == nil || msg.Message == nil || msg.Local {
		return
	}
	id, ok := c20IDOf(t.e.codec, msg.Data)
	if !ok {
		return
	}
	e := t.e
	e.mu.Lock()
	defer e.mu.Unlock()
	m := e.get(id)
	if m == nil {
		return
	}
	if t.node == "C" {
		if what == "validate" && m.CRaw == 0 {
			m.CRaw = e.evLocked(m.Block, "arrive", vc.M{"m": strconv.FormatUint(id, 10), "via": "raw"})
		}
		return
	}
	e.seq++
	switch what {
	case "validate":
		if m.BValidate == 0 {
			m.BValidate = e.seq
		}
	case "deliver":
		if m.BDeliver == 0 {
			m.BDeliver = e.seq
		}
	case "reject":
		if m.BReject == 0 {
			m.BReject = e.seq
			m.BReason = reason
		}
	}
}

func (t *c20Tracer) AddPeer(peer.ID, protocol.ID)      {}
func (t *c20Tracer) RemovePeer(peer.ID)                {}
func (t *c20Tracer) Join(string)                       {}
func (t *c20Tracer) Leave(string)                      {}
func (t *c20Tracer) Graft(peer.ID, string)             {}
func (t *c20Tracer) Prune(peer.ID, string)             {}
func (t *c20Tracer) ValidateMessage(m *pubsub.Message) { t.note(m, "validate", "") }
func (t *c20Tracer) DeliverMessage(m *pubsub.Message)  { t.note(m, "deliver", "") }
func (t *c20Tracer) RejectMessage(m *pubsub.Message, r string) {
	t.note(m, "reject", r)
}
func (t *c20Tracer) DuplicateMessage(*pubsub.Message)     {}
func (t *c20Tracer) ThrottlePeer(peer.ID)                 {}
func (t *c20Tracer) RecvRPC(*pubsub.RPC)                  {}
func (t *c20Tracer) SendRPC(*pubsub.RPC, peer.ID)         {}
func (t *c20Tracer) DropRPC(*pubsub.RPC, peer.ID)         {}
func (t *c20Tracer) UndeliverableMessage(*pubsub.Message) {}

// ---------------------------------------------------------------- topology

// c20Gater admits connections only to / from an allowed set of peers.
type c20Gater struct {
	mu      sync.Mutex
	allowed map[peer.ID]bool
}

func (g *c20Gater) allow(p peer.ID) {
	g.mu.Lock()
	g.allowed[p] = true
	g.mu.Unlock()
}
func (g *c20Gater) ok(p peer.ID) bool {
	g.mu.Lock()
	defer g.mu.Unlock()
	return g.allowed[p]
}
func (g *c20Gater) InterceptPeerDial(p peer.ID) bool                 { return g.ok(p) }
func (g *c20Gater) InterceptAddrDial(p peer.ID, _ ma.Multiaddr) bool { return g.ok(p) }
func (g *c20Gater) InterceptAccept(network.ConnMultiaddrs) bool      { return true }
func (g *c20Gater) InterceptSecured(_ network.Direction, p peer.ID, _ network.ConnMultiaddrs) bool {
	return g.ok(p)
}
func (g *c20Gater) InterceptUpgraded(network.Conn) (bool, control.DisconnectReason) { return true, 0 }

func c20NewHost(ctx context.Context, g *c20Gater, tr pubsub.RawTracer) (*Host, error) {
	// same gossipsub timing as tmlibp2ptest.newHostOptions, without DHT routing (no discovery: the line
	// must stay a line)
	params := pubsub.DefaultGossipSubParams()
	params.HeartbeatInitialDelay = 8 * time.Millisecond
	params.HeartbeatInterval = 45 * time.Millisecond
	params.DirectConnectInitialDelay = 11 * time.Millisecond
	opts := []libp2p.Option{
		libp2p.ListenAddrStrings("/ip4/127.0.0.1/tcp/0"),
		libp2p.Transport(tcp.NewTCPTransport),
		libp2p.ForceReachabilityPublic(),
	}
	if g != nil {
		opts = append(opts, libp2p.ConnectionGater(g))
	}
	ps := []pubsub.Option{pubsub.WithGossipSubParams(params)}
	if tr != nil {
		ps = append(ps, pubsub.WithRawTracer(tr))
	}
	return NewHost(ctx, HostOptions{Options: opts, PubSubOptions: ps})
}

type c20Net struct {
	e          *c20Env
	ctx        context.Context
	log        *slog.Logger
	gA, gC     *c20Gater
	hA, hB, hC *Host
	cA, cB, cC *Connection
	bSlot      string // harness's belief of B's slot
}

func (n *c20Net) acConnected() bool {
	return n.hA.Libp2pHost().Network().Connectedness(n.hC.Libp2pHost().ID()) == network.Connected ||
		n.hC.Libp2pHost().Network().Connectedness(n.hA.Libp2pHost().ID()) == network.Connected
}

// publish sends m from A (logging the publish event first).
func (n *c20Net) publish(m *c20Msg) {
	e := n.e
	e.mu.Lock()
	m.PubSeq = e.evLocked(m.Block, "publish", vc.M{"m": strconv.FormatUint(m.ID, 10), "dec": m.Cls.Dec, "kind": m.Cls.Kind, "fb": m.Cls.Fb})
	e.mu.Unlock()
	if m.Cls.Dec != "ok" {
		if err := n.cA.consensusTopic.Publish(n.ctx, c20Raw(e.codec, m.ID, m.Cls)); err != nil {
			e.t.Logf("c20: raw publish failed: %v", err)
		}
		return
	}
	bc := n.cA.ConsensusBroadcaster()
	switch m.Cls.Kind {
	case "ph":
		bc.OutgoingProposedHeaders() <- tmconsensus.ProposedHeader{Header: tmconsensus.Header{Height: m.ID}}
	case "prevote":
		bc.OutgoingPrevoteProofs() <- tmconsensus.PrevoteSparseProof{Height: m.ID, PubKeyHash: "c20"}
	case "precommit":
		bc.OutgoingPrecommitProofs() <- tmconsensus.PrecommitSparseProof{Height: m.ID, PubKeyHash: "c20"}
	}
}

// setB calls the real SetConsensusHandler on B and records the interval.
func (n *c20Net) setB(kind string) {
	i := n.e.swapBegin(kind)
	n.cB.SetConsensusHandler(n.ctx, n.e.handlerFor(kind))
	n.e.swapEnd(i, kind)
	if kind == "nil" {
		n.bSlot = "ignoreAll"
	} else {
		n.bSlot = kind
	}
}

// ---------------------------------------------------------------- gate (only with the verifGate hook, see zz_verif_c20_gate_test.go)

type c20GateCtl struct {
	mu      sync.Mutex
	armed   string // point name to park at, "" = pass through
	entered chan struct{}
	release chan struct{}
	points  map[string]int
}

// c20Gate is set by the init() of the gate file when the package has the verifGate hook.
var c20Gate *c20GateCtl

func (g *c20GateCtl) hit(point string) {
	g.mu.Lock()
	g.points[point]++
	if g.armed != point {
		g.mu.Unlock()
		return
	}
	g.armed = ""
	ent, rel := g.entered, g.release
	g.mu.Unlock()
	close(ent)
	<-rel
}

func (g *c20GateCtl) arm(point string) (entered, release chan struct{}) {
	g.mu.Lock()
	defer g.mu.Unlock()
	g.armed = point
	g.entered = make(chan struct{})
	g.release = make(chan struct{})
	return g.entered, g.release
}

func (g *c20GateCtl) disarm() {
	g.mu.Lock()
	g.armed = ""
	g.mu.Unlock()
}

const c20GateSwapPoint = "consensus-validator-unregistered"

// ---------------------------------------------------------------- (a) pure-function level

func TestVerifC20Map(t *testing.T) {
	out := vc.Open("VERIF_OUT")
	defer out.Close()
	log := slog.New(slog.NewTextHandler(io.Discard, nil))
	ctx, cancel := context.WithCancel(context.Background())
	defer cancel()

	// exchangeFeedbackToLibp2p needs only the logger
	c := &Connection{log: log}
	rows := vc.ReadNDJSON[c20MapRow]("VERIF_MAP")
	seen := map[int]bool{}
	nMap := 0
	check := func(f int, want string, src string) {
		var got string
		func() {
			defer func() {
				if r := recover(); r != nil {
					got = fmt.Sprintf("panic: %v", r)
				}
			}()
			got = c20ResName(c.exchangeFeedbackToLibp2p(gexchange.Feedback(uint8(f))))
		}()
		nMap++
		seen[f] = true
		// property predicate FeedbackMapping: only Accepted maps to accept; out-of-range maps to ignore
		if (got == "accept") != (f == 1) {
			out.Emit(vc.M{"kind": "violation", "predicate": "FeedbackMapping", "site": "exchangeFeedbackToLibp2p",
				"class": "feedback-" + c20FbName(f) + "-maps-to-" + got, "f": f, "got": got, "want": want, "src": src})
		} else if f > 4 && got != "ignore" {
			out.Emit(vc.M{"kind": "violation", "predicate": "FeedbackMapping", "site": "exchangeFeedbackToLibp2p",
				"class": "out-of-range-not-ignored", "f": f, "got": got, "want": want, "src": src})
		} else if got != want {
			out.Emit(vc.M{"kind": "mismatch", "site": "exchangeFeedbackToLibp2p", "f": f, "got": got, "want": want, "src": src})
		}
	}
	for _, r := range rows {
		check(r.F, r.Res, "tlc-table")
	}

	// validator level: libp2pConsensusMessageValidator(h) / ignoreMessage called directly with the payload
	// of every (captured slot, class) pair that occurs in the exported behaviours
	h, err := c20NewHost(ctx, nil, nil)
	if err != nil {
		out.Emit(vc.M{"kind": "error", "what": "host: " + err.Error()})
		t.Fatal(err)
	}
	defer h.Close()
	c.h = h
	c.codec = c20Codec()
	other, err := c20NewHost(ctx, nil, nil)
	if err != nil {
		out.Emit(vc.M{"kind": "error", "what": "host: " + err.Error()})
		t.Fatal(err)
	}
	defer other.Close()
	from := other.Libp2pHost().ID()

	type pairKey struct {
		H string
		C c20Class
	}
	pairs := map[pairKey]c20Exp{}
	for _, b := range vc.ReadNDJSON[c20Beh]("VERIF_IN") {
		if b.Tr != "libp2p" {
			continue
		}
		for _, s := range b.Hist {
			if s.Op == "validate" && s.Exp != nil && (c20IsHandler(s.H) || s.H == "ignoreAll") {
				pairs[pairKey{s.H, b.Cls[s.M]}] = *s.Exp
			}
		}
	}
	nVal := 0
	id := uint64(500)
	for k, exp := range pairs {
		id++
		var calledF []int
		hd := &c20DirectHandler{fb: func() gexchange.Feedback {
			f := gexchange.FeedbackIgnored
			if c20IsHandler(k.H) {
				f = c20Verdict(k.H, k.C)
			}
			calledF = append(calledF, int(f))
			return f
		}}
		msg := &pubsub.Message{Message: &pubsubpb.Message{Data: c20Raw(c.codec, id, k.C)}, ReceivedFrom: from}
		var got string
		func() {
			defer func() {
				if r := recover(); r != nil {
					got = fmt.Sprintf("panic: %v", r)
				}
			}()
			if k.H == "ignoreAll" {
				got = c20ResName(ignoreMessage(ctx, from, msg))
			} else {
				got = c20ResName(c.libp2pConsensusMessageValidator(hd)(ctx, from, msg))
			}
		}()
		nVal++
		accepted := len(calledF) > 0 && calledF[len(calledF)-1] == 1
		rec := vc.M{"h": k.H, "cls": k.C, "got": got, "want": exp.Res, "called": len(calledF) > 0, "want_called": exp.Called, "site": "libp2pConsensusMessageValidator"}
		if got == "accept" && !accepted {
			// the validator result that makes pubsub forward the message, without an Accepted verdict
			cl := "no-handler"
			if c20IsHandler(k.H) {
				switch {
				case len(calledF) > 0:
					cl = "verdict-" + c20FbName(calledF[len(calledF)-1])
				case k.C.Dec == "undecodable":
					cl = "undecodable"
				case k.C.Dec == "empty":
					cl = "empty-message"
				default:
					cl = "handler-not-invoked"
				}
			}
			rec["kind"], rec["predicate"], rec["class"] = "violation", "RelayedOnlyIfAccepted", cl
			rec["site"] = "libp2p-validator"
			out.Emit(rec)
		} else if got != exp.Res || (len(calledF) > 0) != exp.Called {
			rec["kind"] = "mismatch"
			out.Emit(rec)
		}
	}
	out.Emit(vc.M{"kind": "summary", "level": "map", "map_rows": nMap, "map_distinct": len(seen), "validator_pairs": nVal})
}

type c20DirectHandler struct{ fb func() gexchange.Feedback }

func (h *c20DirectHandler) HandleProposedHeader(context.Context, tmconsensus.ProposedHeader) gexchange.Feedback {
	return h.fb()
}
func (h *c20DirectHandler) HandlePrevoteProofs(context.Context, tmconsensus.PrevoteSparseProof) gexchange.Feedback {
	return h.fb()
}
func (h *c20DirectHandler) HandlePrecommitProofs(context.Context, tmconsensus.PrecommitSparseProof) gexchange.Feedback {
	return h.fb()
}

// ---------------------------------------------------------------- (b) network level

func TestVerifC20Net(t *testing.T) {
	out := vc.Open("VERIF_OUT")
	defer out.Close()
	trace := vc.Open("VERIF_TRACE")
	defer trace.Close()

	seed := int64(vc.EnvInt("VERIF_SEED", 1))
	rng := rand.New(rand.NewSource(seed))
	startupReps := vc.EnvInt("VERIF_STARTUP_REPS", 3)
	stressMs := vc.EnvInt("VERIF_STRESS_MS", 1500)
	stressTraced := vc.EnvInt("VERIF_STRESS_TRACED", 1500)
	maxBeh := vc.EnvInt("VERIF_MAX_BEH", 400)

	ctx, cancel := context.WithCancel(context.Background())
	defer cancel()
	e := newC20Env(t)
	n := &c20Net{e: e, ctx: ctx, log: slog.New(slog.NewTextHandler(io.Discard, nil)),
		gA: &c20Gater{allowed: map[peer.ID]bool{}}, gC: &c20Gater{allowed: map[peer.ID]bool{}}}
	fail := func(what string, err error) {
		out.Emit(vc.M{"kind": "error", "what": fmt.Sprintf("%s: %v", what, err)})
		out.Flush()
		t.Fatalf("%s: %v", what, err)
	}
	var err error
	if n.hA, err = c20NewHost(ctx, n.gA, nil); err != nil {
		fail("host A", err)
	}
	if n.hC, err = c20NewHost(ctx, n.gC, &c20Tracer{e: e, node: "C"}); err != nil {
		fail("host C", err)
	}
	if n.cA, err = NewConnection(ctx, n.log, n.hA, e.codec); err != nil {
		fail("conn A", err)
	}
	if n.cC, err = NewConnection(ctx, n.log, n.hC, e.codec); err != nil {
		fail("conn C", err)
	}
	// A needs a handler: with the ignoreMessage validator its own publishes are dropped locally
	n.cA.SetConsensusHandler(ctx, &c20Handler{e: e, node: "A"})
	n.cC.SetConsensusHandler(ctx, &c20Handler{e: e, node: "C"})

	summary := vc.M{"kind": "summary", "level": "net", "gate": c20Gate != nil}
	ops := map[string]int{}

	// ---- phase 1: startup window.  B's host is connected to A and C, A floods while NewConnection(B)
	// runs; B has no consensus handler during the whole phase.
	nonAccept := []c20Class{{"ok", "prevote", 2}, {"ok", "ph", 3}, {"ok", "precommit", 0}, {"ok", "prevote", 5}, {"undecodable", "raw", 0}, {"empty", "raw", 0}}
	startupPublished := 0
	for rep := 0; rep < startupReps; rep++ {
		hB, err := c20NewHost(ctx, nil, &c20Tracer{e: e, node: "B"})
		if err != nil {
			fail("host B", err)
		}
		bid := hB.Libp2pHost().ID()
		n.gA.allow(bid)
		n.gC.allow(bid)
		bi := peer.AddrInfo{ID: bid, Addrs: hB.Libp2pHost().Addrs()}
		if err := n.hA.Libp2pHost().Connect(ctx, bi); err != nil {
			fail("connect A-B", err)
		}
		if err := n.hC.Libp2pHost().Connect(ctx, bi); err != nil {
			fail("connect C-B", err)
		}
		// B's pubsub must know that A and C subscribe to the topic before it joins
		for i := 0; i < 400 && len(hB.PubSub().ListPeers(topicConsensus)) < 2; i++ {
			time.Sleep(5 * time.Millisecond)
		}
		e.newBlock(true, "ignoreAll")
		e.ev("startup_begin", nil)
		stop := make(chan struct{})
		var wg sync.WaitGroup
		wg.Add(1)
		go func() {
			defer wg.Done()
			for i := 0; ; i++ {
				select {
				case <-stop:
					return
				default:
				}
				m := e.newMsg("s", nonAccept[i%len(nonAccept)], "startup", -1, "none", i < 400)
				n.publish(m)
				startupPublished++
				time.Sleep(150 * time.Microsecond)
			}
		}()
		time.Sleep(20 * time.Millisecond)
		cB, err := NewConnection(ctx, n.log, hB, e.codec)
		if err != nil {
			close(stop)
			wg.Wait()
			fail("conn B", err)
		}
		time.Sleep(40 * time.Millisecond)
		// the first completed SetConsensusHandler proves background() has registered ignoreMessage
		i := e.swapBegin("nil")
		cB.SetConsensusHandler(ctx, nil)
		e.swapEnd(i, "nil")
		close(stop)
		wg.Wait()
		e.ev("startup_end", nil)
		time.Sleep(150 * time.Millisecond)
		if rep < startupReps-1 {
			cB.Disconnect()
			for i := 0; i < 400 && len(n.hA.Libp2pHost().Network().Peers()) > 0; i++ {
				time.Sleep(5 * time.Millisecond)
			}
		} else {
			n.hB, n.cB = hB, cB
		}
	}
	if n.cB == nil { // startupReps == 0
		hB, err := c20NewHost(ctx, nil, &c20Tracer{e: e, node: "B"})
		if err != nil {
			fail("host B", err)
		}
		bid := hB.Libp2pHost().ID()
		n.gA.allow(bid)
		n.gC.allow(bid)
		bi := peer.AddrInfo{ID: bid, Addrs: hB.Libp2pHost().Addrs()}
		if err := n.hA.Libp2pHost().Connect(ctx, bi); err != nil {
			fail("connect A-B", err)
		}
		if err := n.hC.Libp2pHost().Connect(ctx, bi); err != nil {
			fail("connect C-B", err)
		}
		if n.cB, err = NewConnection(ctx, n.log, hB, e.codec); err != nil {
			fail("conn B", err)
		}
		n.hB = hB
	}
	n.bSlot = "ignoreAll"
	summary["startup_published"] = startupPublished
	summary["ac_connected_start"] = n.acConnected()

	// ---- phase 2: control.  B accepts everything: C must receive (topology A-B-C works, else vacuous)
	e.newBlock(true, "ignoreAll")
	n.setB("acceptAll")
	controlOK := 0
	for _, c := range []c20Class{{"ok", "prevote", 1}, {"ok", "ph", 1}, {"ok", "precommit", 1}, {"two", "ph", 1}} {
		got := false
		for try := 0; try < 150 && !got; try++ {
			m := e.newMsg("ctl", c, "control", -1, "acceptAll", true)
			n.publish(m)
			got = e.waitFor(60*time.Millisecond, func() bool { return m.CHandler != 0 })
		}
		if got {
			controlOK++
		}
	}
	summary["control_ok"] = controlOK

	// ---- phase 3: replay of the TLC behaviours
	behs := vc.ReadNDJSON[c20Beh]("VERIF_IN")
	replayed, needsGate, unresolved, missedRelay, gateNotReached := 0, 0, 0, 0, 0
	distinct := map[string]bool{}
	for bi, b := range behs {
		if b.Tr != "libp2p" || replayed >= maxBeh {
			continue
		}
		// without the gate nothing can be placed between unregister and register
		windowOps := false
		for i, s := range b.Hist {
			if s.Op == "unregister" && i+1 < len(b.Hist) && b.Hist[i+1].Op != "register" {
				windowOps = true
			}
		}
		if windowOps && c20Gate == nil {
			needsGate++
			continue
		}
		if b.Hist[0].Op != "init" || b.Hist[0].H != "ignoreAll" {
			continue // startup-window behaviours are covered by phase 1
		}
		replayed++
		func() {
			defer func() {
				if r := recover(); r != nil {
					out.Emit(vc.M{"kind": "panic", "beh": b.Idx, "what": fmt.Sprint(r)})
				}
			}()
			// reset B to the spec's initial slot
			if n.bSlot != "ignoreAll" {
				n.setB("nil")
			}
			blk := e.newBlock(true, "ignoreAll")
			live := map[string]*c20Msg{}
			blockOK := true
			var swapDone chan struct{}
			var gateRelease chan struct{}
			swapIdx := -1
			windowMissing := false
			for si, s := range b.Hist {
				ops[s.Op]++
				switch s.Op {
				case "init", "publish", "arrive":
				case "sethandler":
					n.setB(s.H)
				case "unregister":
					if c20Gate == nil {
						// atomic from outside: the swap is performed at "register"
						continue
					}
					entered, release := c20Gate.arm(c20GateSwapPoint)
					gateRelease = release
					swapDone = make(chan struct{})
					swapIdx = e.swapBegin(s.H)
					go func(h string, done chan struct{}) {
						n.cB.SetConsensusHandler(ctx, e.handlerFor(h))
						close(done)
					}(s.H, swapDone)
					select {
					case <-entered:
						e.ev("gate_enter", nil)
					case <-swapDone:
						// the code has no such point (e.g. the fixed tree): the swap completed atomically
						c20Gate.disarm()
						gateNotReached++
						windowMissing = true
					case <-time.After(3 * time.Second):
						c20Gate.disarm()
						gateNotReached++
						windowMissing = true
					}
				case "register":
					if c20Gate == nil {
						n.setB(s.H)
						continue
					}
					e.ev("gate_release", nil)
					close(gateRelease)
					<-swapDone
					windowMissing = false
					e.swapEnd(swapIdx, s.H)
					if s.H == "nil" {
						n.bSlot = "ignoreAll"
					} else {
						n.bSlot = s.H
					}
				case "deliver":
					cl := b.Cls[s.M]
					m := e.newMsg(s.M, cl, "replay", b.Idx, s.H, true)
					m.NoCompare = windowMissing
					live[s.M] = m
					willCall := c20IsHandler(s.H) && (cl.Dec == "ok" || cl.Dec == "two")
					if willCall {
						m.entered, m.hold = make(chan struct{}), make(chan struct{})
					}
					n.publish(m)
					if willCall {
						select {
						case <-m.entered:
						case <-time.After(2 * time.Second):
							// B's handler was not entered: resolved at "validate"
						}
					} else if !e.waitFor(2*time.Second, func() bool { return m.BDeliver != 0 || m.BReject != 0 }) {
						blockOK = false
					}
				case "validate":
					m := live[s.M]
					if m.hold != nil {
						select {
						case <-m.hold:
						default:
							close(m.hold)
						}
					}
					if !e.waitFor(2*time.Second, func() bool { return m.BDeliver != 0 || m.BReject != 0 }) {
						blockOK = false
						unresolved++
						continue
					}
					snap := e.snapshot(m)
					if snap.BDeliver != 0 {
						// B forwards: give C a bounded time to see it
						if !e.waitFor(1500*time.Millisecond, func() bool { return m.CRaw != 0 || m.CHandler != 0 }) {
							missedRelay++
						}
						snap = e.snapshot(m)
					}
					got := c20Exp{Called: len(snap.Verdicts) > 0, F: -1}
					if got.Called {
						got.F = snap.Verdicts[0].F
					}
					switch {
					case snap.BDeliver != 0 && !got.Called:
						got.Res = "novalidator"
					case snap.BDeliver != 0:
						got.Res = "accept"
					case snap.BReason == pubsub.RejectValidationIgnored:
						got.Res = "ignore"
					case snap.BReason == pubsub.RejectValidationFailed:
						got.Res = "reject"
					default:
						got.Res = "dropped:" + snap.BReason
					}
					got.Relay = snap.CRaw != 0 || snap.CHandler != 0
					distinct[fmt.Sprintf("%s/%v/%s", s.H, m.Cls, got.Res)] = true
					if s.Exp != nil && !m.NoCompare && (got.Called != s.Exp.Called || got.F != s.Exp.F || got.Res != s.Exp.Res) {
						// B-side result differs from the spec.  A relay the spec expects and the code does not
						// perform is not reported (the property is only-if); everything else is a mismatch.
						if !(s.Exp.Relay && !got.Relay && s.Exp.Res == "novalidator") {
							out.Emit(vc.M{"kind": "mismatch", "site": "libp2p", "beh": b.Idx, "step": si, "h": s.H, "cls": m.Cls, "want": s.Exp, "got": got})
						}
					}
				default:
					out.Emit(vc.M{"kind": "error", "what": "unknown op " + s.Op})
				}
			}
			// never leave a handler of this behaviour blocked
			for _, m := range live {
				if m.hold != nil {
					select {
					case <-m.hold:
					default:
						close(m.hold)
					}
				}
			}
			if !blockOK {
				e.mu.Lock()
				e.dropped[blk] = true
				e.mu.Unlock()
			}
		}()
		_ = bi
	}
	summary["replayed"], summary["needs_gate"], summary["unresolved"], summary["missed_relay"] = replayed, needsGate, unresolved, missedRelay
	summary["gate_not_reached"] = gateNotReached
	summary["distinct"] = len(distinct)
	summary["ops"] = ops

	// ---- phase 4: swap stress.  B's handler is replaced in a tight loop by handlers that never accept a
	// message of a non-accept class, while A floods.  "script" accepts the fb=1 messages, which keeps
	// the phase non-vacuous (those must show up at C).
	if n.bSlot != "ignoreAll" {
		n.setB("nil")
	}
	stressKinds := []string{"rejectAll", "ignoreAllH", "script", "nil"}
	stressClasses := append([]c20Class{{"ok", "prevote", 1}, {"ok", "ph", 4}, {"ok", "precommit", 255}, {"two", "ph", 2}}, nonAccept...)
	e.newBlock(true, "ignoreAll")
	stressPublished, swapsDone := 0, 0
	if stressMs > 0 {
		stop := make(chan struct{})
		var wg sync.WaitGroup
		wg.Add(1)
		frng := rand.New(rand.NewSource(seed + 7))
		go func() {
			defer wg.Done()
			for i := 0; ; i++ {
				select {
				case <-stop:
					return
				default:
				}
				m := e.newMsg("x", stressClasses[frng.Intn(len(stressClasses))], "stress", -1, "stress", i < stressTraced)
				n.publish(m)
				stressPublished++
				time.Sleep(time.Duration(100+frng.Intn(300)) * time.Microsecond)
			}
		}()
		si := e.swapBegin(stressKinds...)
		t0 := time.Now()
		last := "nil"
		for time.Since(t0) < time.Duration(stressMs)*time.Millisecond {
			last = stressKinds[rng.Intn(len(stressKinds))]
			n.cB.SetConsensusHandler(ctx, e.handlerFor(last))
			swapsDone++
		}
		close(stop)
		wg.Wait()
		// keep the interval open until the flood has drained: publishes are asynchronous
		time.Sleep(300 * time.Millisecond)
		e.swapEnd(si, last)
	}
	summary["stress_published"], summary["stress_swaps"] = stressPublished, swapsDone

	// ---- final sweep
	time.Sleep(600 * time.Millisecond)
	summary["ac_connected_end"] = n.acConnected()
	summary["peers_a"] = len(n.hA.Libp2pHost().Network().Peers())
	summary["peers_c"] = len(n.hC.Libp2pHost().Network().Peers())

	e.mu.Lock()
	arrived, accepted, verdicts, viol := 0, 0, 0, 0
	perPhase := map[string]int{}
	perClass := map[string]int{}
	for _, m := range e.msgs {
		verdicts += len(m.Verdicts)
		arr := m.CRaw
		if arr == 0 || (m.CHandler != 0 && m.CHandler < arr) {
			arr = m.CHandler
		}
		if m.CRaw == 0 && m.CHandler == 0 {
			continue
		}
		arrived++
		perPhase[m.Phase]++
		acc := false
		for _, v := range m.Verdicts {
			if v.F == 1 {
				acc = true
			}
		}
		if acc {
			accepted++
			continue
		}
		// RelayedOnlyIfAccepted is false for m on the real network
		class := ""
		switch {
		case len(m.Verdicts) > 0:
			class = "verdict-" + c20FbName(m.Verdicts[0].F)
		case m.Phase == "startup":
			class = "startup-window"
		default:
			overlap := false
			for _, iv := range e.swaps {
				if iv.Begin < arr && (iv.End == 0 || iv.End > m.PubSeq) {
					overlap = true
				}
			}
			switch {
			case overlap:
				class = "swap-window"
			case m.Slot == "ignoreAll":
				class = "no-handler"
			case m.Cls.Dec == "undecodable":
				class = "undecodable"
			case m.Cls.Dec == "empty":
				class = "empty-message"
			default:
				class = "handler-not-invoked"
			}
		}
		viol++
		perClass[class]++
		if perClass[class] <= 25 {
			out.Emit(vc.M{"kind": "violation", "predicate": "RelayedOnlyIfAccepted", "site": "libp2p", "class": class,
				"phase": m.Phase, "beh": m.Scen, "msg": m.Name, "id": m.ID, "cls": m.Cls, "slot": m.Slot,
				"verdicts": m.Verdicts, "b_deliver": m.BDeliver != 0, "b_reason": m.BReason,
				"at_c_raw": m.CRaw != 0, "at_c_handler": m.CHandler != 0})
		}
	}
	// trace: blocks in order, dropped blocks skipped
	nblocks := 0
	for i, blk := range e.blocks {
		if e.dropped[i] {
			continue
		}
		nblocks++
		for _, ev := range blk {
			trace.Emit(ev)
		}
	}
	e.mu.Unlock()
	summary["messages"], summary["arrived"], summary["arrived_accepted"], summary["b_verdicts"] = len(e.msgs), arrived, accepted, verdicts
	summary["arrived_per_phase"] = perPhase
	summary["violations"] = viol
	summary["violations_per_class"] = perClass
	summary["trace_blocks"], summary["trace_events"] = nblocks, trace.Count()
	if c20Gate != nil {
		summary["gate_points"] = c20Gate.points
	}
	out.Emit(summary)
	out.Flush()
	trace.Flush()

	// shut down
	cancel()
	n.cA.Disconnect()
	n.cB.Disconnect()
	n.cC.Disconnect()
}
