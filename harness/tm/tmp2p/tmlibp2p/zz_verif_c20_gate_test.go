//go:build verif && verifgate

package tmlibp2p

// Compiled only when /repo carries the verifGate hook (proposed_fixes/C20-hook-verifgate.diff);
// checks/c20.py adds the build tag `verifgate` when `verifGate` is defined in the package.
// With the gate the harness parks Connection.background between UnregisterTopicValidator and
// RegisterTopicValidator, so the TLC behaviours that deliver a message inside the window are
// replayed deterministically instead of being left to the stress loop.

func init() {
	c20Gate = &c20GateCtl{points: map[string]int{}}
	verifGate = c20Gate.hit
}
