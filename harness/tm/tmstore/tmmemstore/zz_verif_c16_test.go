package tmmemstore_test

// C16 conformance harness (overlaid into /repo/tm/tmstore/tmmemstore by /verif/bin/check).
//
// Binds spec/StoresModel.tla (sequential reference model of the seven in-memory stores) to the
// real tmmemstore types:
//
//   - TestVerifC16Seq    spec -> code: behaviours exported by TLC from Stores.tla (ndjson in
//     $VERIF_IN) are replayed step by step on fresh real stores with concrete values built from
//     tmconsensustest.Fixture (real headers, signatures, sparse proofs, validator sets, the real
//     SimpleHashScheme); after every step the real result, projected back to the abstract ids,
//     must equal the result the model prescribes.  Also code -> spec: seeded random operation
//     sequences over larger domains are executed and written as single-threaded histories to
//     $VERIF_TRACE for StoresLin.tla.
//   - TestVerifC16Conc   3 goroutines x 3 operations on one store object per history; call and
//     return events are taken under one logger mutex ("call" BEFORE invoking, "ret" AFTER the
//     call returned, so every real interval lies inside the recorded one); TLC (StoresLin.tla)
//     searches for a linearization of each history.
//   - TestVerifC16Stress unlogged hammering of one store object by many goroutines; meant for
//     the race detector and the runtime's concurrent-map checks.
//
// The id <-> concrete value tables live in c16World.  A projected id of -1 means "the store
// returned a value that is none of the values ever handed to it".

import (
	"context"
	"crypto/sha1"
	"encoding/json"
	"errors"
	"fmt"
	"math/rand"
	"os"
	"reflect"
	"runtime"
	"slices"
	"sync"
	"sync/atomic"
	"testing"

	"github.com/gordian-engine/gordian/gcrypto"
	vc "github.com/gordian-engine/gordian/internal/verifcommon"
	"github.com/gordian-engine/gordian/tm/tmconsensus"
	"github.com/gordian-engine/gordian/tm/tmconsensus/tmconsensustest"
	"github.com/gordian-engine/gordian/tm/tmstore"
	"github.com/gordian-engine/gordian/tm/tmstore/tmmemstore"
)

const (
	c16MaxH = 3 // heights 1..3
	c16MaxR = 2 // rounds 0..2
)

type c16Op struct {
	Op  string `json:"op"`
	A   []int  `json:"a"`
	Err string `json:"err"`
	V   []int  `json:"v"`
}

type c16Beh struct {
	Store string  `json:"store"`
	H     []c16Op `json:"h"`
}

// c16Ev is one line of a history for StoresLin.tla (all fields always present).
type c16Ev struct {
	Ev    string `json:"ev"`
	Store string `json:"store"`
	T     int    `json:"t"`
	Op    string `json:"op"`
	A     []int  `json:"a"`
	Err   string `json:"err"`
	V     []int  `json:"v"`
}

type c16SigKey struct {
	kind         string
	h, r, pk, tg int
	s            int
}

type c16FinPayload struct {
	round        uint32
	blockHash    string
	valSet       tmconsensus.ValidatorSet
	appStateHash string
}

// c16World holds the concrete values behind the abstract ids of StoresModel.tla.
// It is read-only after construction (shared by goroutines).
type c16World struct {
	ctx context.Context
	fx  *tmconsensustest.Fixture
	hs  tmconsensustest.SimpleHashScheme

	pk  [4]gcrypto.PubKey                                              // pk id 1..3
	hdr [c16MaxH + 1][3]tmconsensus.Header                             // [h][hd 1..2]
	rph [c16MaxH + 1][c16MaxR + 1][3][3]tmconsensus.ProposedHeader     // [h][r][hd][pk 1..2]
	prf map[string]*[c16MaxH + 1][c16MaxR + 1][4]tmconsensus.SparseSignatureCollection // kind -> [h][r][p 1..3]
	sig map[c16SigKey][]byte
	rev map[string]c16SigKey

	fin [4]c16FinPayload                            // p 1..3
	ch  [c16MaxH + 1][4]tmconsensus.CommittedHeader // [h][p 1..3]
	mir [4][4]uint64                                // p -> vh, vr, ch, cr
	sm  [4][2]uint64                                // p -> h, r

	keys    [4][]gcrypto.PubKey // list id 1..3
	pows    [4][]uint64
	keyHash [5]string // hash id 1..4 (4: never saved in the key namespace)
	powHash [5]string
}

func newC16World() *c16World {
	ctx := context.Background()
	w := &c16World{ctx: ctx, fx: tmconsensustest.NewEd25519Fixture(3)}
	fx := w.fx
	for i := 1; i <= 3; i++ {
		w.pk[i] = fx.ValidatorPubKey(i - 1)
	}

	// A real chain of headers: two candidates per height, candidate 1 gets committed so that the
	// next height carries a real PrevCommitProof.
	for h := 1; h <= c16MaxH; h++ {
		for hd := 1; hd <= 2; hd++ {
			ph := fx.NextProposedHeader([]byte(fmt.Sprintf("app_data_%d_%d", h, hd)), hd-1)
			if uint64(h) != ph.Header.Height {
				panic("c16: fixture height out of step")
			}
			w.hdr[h][hd] = ph.Header
		}
		voteMap := map[string][]int{string(w.hdr[h][1].Hash): {0, 1, 2}}
		fx.CommitBlock(w.hdr[h][1], []byte(fmt.Sprintf("app_state_%d", h)), 0, fx.PrecommitProofMap(ctx, uint64(h), 0, voteMap))
	}

	w.prf = map[string]*[c16MaxH + 1][c16MaxR + 1][4]tmconsensus.SparseSignatureCollection{
		"prevote":   new([c16MaxH + 1][c16MaxR + 1][4]tmconsensus.SparseSignatureCollection),
		"precommit": new([c16MaxH + 1][c16MaxR + 1][4]tmconsensus.SparseSignatureCollection),
	}
	w.sig = make(map[c16SigKey][]byte)
	w.rev = make(map[string]c16SigKey)
	for h := 1; h <= c16MaxH; h++ {
		for r := 0; r <= c16MaxR; r++ {
			for hd := 1; hd <= 2; hd++ {
				for pk := 1; pk <= 2; pk++ {
					ph := tmconsensus.ProposedHeader{Header: w.hdr[h][hd], Round: uint32(r)}
					fx.SignProposal(ctx, &ph, pk-1)
					w.rph[h][r][hd][pk] = ph
				}
			}
			h1, h2 := string(w.hdr[h][1].Hash), string(w.hdr[h][2].Hash)
			voteMaps := [4]map[string][]int{
				1: {h1: {0}, "": {1}},
				2: {h2: {0, 1}},
				3: {"": {0, 1, 2}},
			}
			for p := 1; p <= 3; p++ {
				w.prf["prevote"][h][r][p] = fx.SparsePrevoteSignatureCollection(ctx, uint64(h), uint32(r), voteMaps[p])
				w.prf["precommit"][h][r][p] = fx.SparsePrecommitSignatureCollection(ctx, uint64(h), uint32(r), voteMaps[p])
			}
			for _, kind := range []string{"prevote", "precommit"} {
				for pk := 1; pk <= 2; pk++ {
					for tg := 0; tg <= 1; tg++ {
						for s := 1; s <= 2; s++ {
							// s = 2: another, equally real signature (over a shifted round), so that
							// "same slot, different signature bytes" is exercised.
							vt := tmconsensus.VoteTarget{Height: uint64(h), Round: uint32(r + 100*(s-1)), BlockHash: w.tgt(h, tg)}
							var b []byte
							if kind == "prevote" {
								b = fx.PrevoteSignature(ctx, vt, pk-1)
							} else {
								b = fx.PrecommitSignature(ctx, vt, pk-1)
							}
							k := c16SigKey{kind, h, r, pk, tg, s}
							if _, dup := w.rev[string(b)]; dup {
								panic("c16: signature table not injective")
							}
							w.sig[k] = b
							w.rev[string(b)] = k
						}
					}
				}
			}
		}
	}

	// finalization payloads: components chosen so that any two payloads differ in at least two
	// fields and a swapped pair of fields matches no payload
	w.fin[1] = c16FinPayload{3, "block_hash_1", tmconsensustest.NewEd25519Fixture(3).ValSet(), "app_state_hash_1"}
	w.fin[2] = c16FinPayload{5, "block_hash_2", tmconsensustest.NewEd25519Fixture(4).ValSet(), "app_state_hash_2"}
	w.fin[3] = c16FinPayload{3, "block_hash_2", tmconsensustest.NewEd25519Fixture(2).ValSet(), "app_state_hash_1"}

	// committed headers: p1 = (header 1, proof A), p2 = (header 2, proof B), p3 = (header 1, proof B)
	pubKeyHash, _ := fx.ValidatorHashes()
	for h := 1; h <= c16MaxH; h++ {
		mk := func(hd int, round uint32, idxs, nilIdxs []int) tmconsensus.CommittedHeader {
			vm := map[string][]int{string(w.hdr[h][hd].Hash): idxs}
			if len(nilIdxs) > 0 {
				vm[""] = nilIdxs
			}
			return tmconsensus.CommittedHeader{
				Header: w.hdr[h][hd],
				Proof: tmconsensus.CommitProof{
					Round:      round,
					PubKeyHash: pubKeyHash,
					Proofs:     fx.SparsePrecommitProofMap(ctx, uint64(h), round, vm),
				},
			}
		}
		w.ch[h][1] = mk(1, 0, []int{0, 1, 2}, nil)
		w.ch[h][2] = mk(2, 1, []int{0, 1}, []int{2})
		w.ch[h][3] = mk(1, 1, []int{0, 1}, []int{2})
	}

	w.mir = [4][4]uint64{1: {5, 3, 4, 7}, 2: {9, 0, 6, 2}, 3: {5, 7, 2, 3}}
	w.sm = [4][2]uint64{1: {5, 3}, 2: {9, 0}, 3: {3, 5}}

	w.keys[1] = []gcrypto.PubKey{w.pk[1], w.pk[2]}
	w.keys[2] = []gcrypto.PubKey{w.pk[2], w.pk[1]}
	w.keys[3] = []gcrypto.PubKey{w.pk[1], w.pk[2], w.pk[3]}
	w.pows[1] = []uint64{10, 20}
	w.pows[2] = []uint64{20, 10}
	w.pows[3] = []uint64{10, 20, 30}
	for i := 1; i <= 3; i++ {
		kh, err := w.hs.PubKeys(w.keys[i])
		if err != nil {
			panic(err)
		}
		ph, err := w.hs.VotePowers(w.pows[i])
		if err != nil {
			panic(err)
		}
		w.keyHash[i], w.powHash[i] = string(kh), string(ph)
	}
	// a hash that exists only in the OTHER namespace
	w.keyHash[4], w.powHash[4] = w.powHash[1], w.keyHash[1]
	return w
}

func (w *c16World) tgt(h, tg int) string {
	if tg == 0 {
		return ""
	}
	return string(w.hdr[h][1].Hash)
}

func (w *c16World) pkID(k gcrypto.PubKey) int {
	if k == nil {
		return 0
	}
	for i := 1; i <= 3; i++ {
		if k.Equal(w.pk[i]) {
			return i
		}
	}
	return -1
}

func (w *c16World) pkIDBytes(b string) int {
	for i := 1; i <= 3; i++ {
		if b == string(w.pk[i].PubKeyBytes()) {
			return i
		}
	}
	return -1
}

func c16Index(xs []string, x string) int {
	for i := 1; i < len(xs); i++ {
		if xs[i] == x {
			return i
		}
	}
	return -1
}

// ---------------------------------------------------------------- store adapters

type c16Store interface {
	// Do executes the abstract operation on the real store and projects the real result.
	Do(op string, a []int) (string, []int)
}

func (w *c16World) newStore(name string) c16Store {
	switch name {
	case "action":
		return &c16Action{w, tmmemstore.NewActionStore()}
	case "round":
		return &c16Round{w, tmmemstore.NewRoundStore()}
	case "fin":
		return &c16Fin{w, tmmemstore.NewFinalizationStore()}
	case "hdr":
		return &c16Hdr{w, tmmemstore.NewCommittedHeaderStore()}
	case "mirror":
		return &c16Mirror{w, tmmemstore.NewMirrorStore()}
	case "sm":
		return &c16SM{w, tmmemstore.NewStateMachineStore()}
	case "val":
		return &c16Val{w, tmmemstore.NewValidatorStore(w.hs)}
	}
	panic("c16: unknown store " + name)
}

var c16Stores = []string{"action", "round", "fin", "hdr", "mirror", "sm", "val"}

func c16Unknown(err error) (string, []int) {
	return "?:" + fmt.Sprintf("%T:%v", err, err), []int{}
}

// -- ActionStore

type c16Action struct {
	w *c16World
	s tmstore.ActionStore
}

func (c *c16Action) saveErr(err error) (string, []int) {
	if err == nil {
		return "", []int{}
	}
	var dbl tmstore.DoubleActionError
	if errors.As(err, &dbl) {
		return "DoubleAction:" + dbl.Type, []int{}
	}
	var chg tmstore.PubKeyChangedError
	if errors.As(err, &chg) {
		return "PubKeyChanged:" + chg.ActionType, []int{c.w.pkIDBytes(chg.Want), c.w.pkIDBytes(chg.Got)}
	}
	return c16Unknown(err)
}

func (c *c16Action) Do(op string, a []int) (string, []int) {
	w := c.w
	switch op {
	case "SavePH":
		h, r, x := a[0], a[1], a[2]
		return c.saveErr(c.s.SaveProposedHeaderAction(w.ctx, w.rph[h][r][x][x]))
	case "SavePrevote", "SavePrecommit":
		h, r, pk, tg, s := a[0], a[1], a[2], a[3], a[4]
		vt := tmconsensus.VoteTarget{Height: uint64(h), Round: uint32(r), BlockHash: w.tgt(h, tg)}
		if op == "SavePrevote" {
			return c.saveErr(c.s.SavePrevoteAction(w.ctx, w.pk[pk], vt, slices.Clone(w.sig[c16SigKey{"prevote", h, r, pk, tg, s}])))
		}
		return c.saveErr(c.s.SavePrecommitAction(w.ctx, w.pk[pk], vt, slices.Clone(w.sig[c16SigKey{"precommit", h, r, pk, tg, s}])))
	case "Load":
		h, r := a[0], a[1]
		ra, err := c.s.LoadActions(w.ctx, uint64(h), uint32(r))
		if err != nil {
			var ru tmconsensus.RoundUnknownError
			if errors.As(err, &ru) {
				return "RoundUnknown", []int{int(ru.WantHeight), int(ru.WantRound)}
			}
			return c16Unknown(err)
		}
		ph := -1
		if reflect.DeepEqual(ra.ProposedHeader, tmconsensus.ProposedHeader{}) {
			ph = 0
		} else {
			for x := 1; x <= 2; x++ {
				if reflect.DeepEqual(ra.ProposedHeader, w.rph[h][r][x][x]) {
					ph = x
				}
			}
		}
		tg := func(s string) int {
			switch s {
			case "":
				return 0
			case w.tgt(h, 1):
				return 1
			}
			return -1
		}
		sg := func(kind, s string, tgid int) int {
			if s == "" {
				return 0
			}
			k, ok := w.rev[s]
			if !ok || k.kind != kind || k.h != h || k.r != r || k.tg != tgid {
				return -1
			}
			return k.s
		}
		pvt, pct := tg(ra.PrevoteTarget), tg(ra.PrecommitTarget)
		return "", []int{int(ra.Height), int(ra.Round), ph, w.pkID(ra.PubKey),
			pvt, sg("prevote", ra.PrevoteSignature, pvt), pct, sg("precommit", ra.PrecommitSignature, pct)}
	}
	panic("c16: action op " + op)
}

// -- FinalizationStore

type c16Fin struct {
	w *c16World
	s tmstore.FinalizationStore
}

func (c *c16Fin) Do(op string, a []int) (string, []int) {
	w := c.w
	switch op {
	case "Save":
		h, p := a[0], w.fin[a[1]]
		err := c.s.SaveFinalization(w.ctx, uint64(h), p.round, p.blockHash, p.valSet, p.appStateHash)
		if err == nil {
			return "", []int{}
		}
		var ow tmstore.FinalizationOverwriteError
		if errors.As(err, &ow) {
			return "FinalizationOverwrite", []int{int(ow.Height)}
		}
		return c16Unknown(err)
	case "Load":
		round, bh, vs, ash, err := c.s.LoadFinalizationByHeight(w.ctx, uint64(a[0]))
		if err != nil {
			var hu tmconsensus.HeightUnknownError
			if errors.As(err, &hu) {
				return "HeightUnknown", []int{int(hu.Want)}
			}
			return c16Unknown(err)
		}
		id := -1
		for p := 1; p <= 3; p++ {
			q := w.fin[p]
			if round == q.round && bh == q.blockHash && ash == q.appStateHash && vs.Equal(q.valSet) && reflect.DeepEqual(vs, q.valSet) {
				id = p
			}
		}
		return "", []int{id}
	}
	panic("c16: fin op " + op)
}

// -- CommittedHeaderStore

type c16Hdr struct {
	w *c16World
	s tmstore.CommittedHeaderStore
}

func (c *c16Hdr) Do(op string, a []int) (string, []int) {
	w := c.w
	switch op {
	case "Save":
		if err := c.s.SaveCommittedHeader(w.ctx, w.ch[a[0]][a[1]]); err != nil {
			return c16Unknown(err)
		}
		return "", []int{}
	case "Load":
		got, err := c.s.LoadCommittedHeader(w.ctx, uint64(a[0]))
		if err != nil {
			var hu tmconsensus.HeightUnknownError
			if errors.As(err, &hu) {
				return "HeightUnknown", []int{int(hu.Want)}
			}
			return c16Unknown(err)
		}
		id := -1
		for p := 1; p <= 3; p++ {
			if reflect.DeepEqual(got, w.ch[a[0]][p]) {
				id = p
			}
		}
		return "", []int{id}
	}
	panic("c16: hdr op " + op)
}

// -- MirrorStore / StateMachineStore

type c16Mirror struct {
	w *c16World
	s tmstore.MirrorStore
}

func (c *c16Mirror) Do(op string, a []int) (string, []int) {
	w := c.w
	switch op {
	case "Set":
		p := w.mir[a[0]]
		if err := c.s.SetNetworkHeightRound(w.ctx, p[0], uint32(p[1]), p[2], uint32(p[3])); err != nil {
			return c16Unknown(err)
		}
		return "", []int{}
	case "Get":
		vh, vr, ch, cr, err := c.s.NetworkHeightRound(w.ctx)
		if err != nil {
			if errors.Is(err, tmstore.ErrStoreUninitialized) {
				return "Uninitialized", []int{}
			}
			return c16Unknown(err)
		}
		id := -1
		for p := 1; p <= 3; p++ {
			if w.mir[p] == [4]uint64{vh, uint64(vr), ch, uint64(cr)} {
				id = p
			}
		}
		return "", []int{id}
	}
	panic("c16: mirror op " + op)
}

type c16SM struct {
	w *c16World
	s tmstore.StateMachineStore
}

func (c *c16SM) Do(op string, a []int) (string, []int) {
	w := c.w
	switch op {
	case "Set":
		p := w.sm[a[0]]
		if err := c.s.SetStateMachineHeightRound(w.ctx, p[0], uint32(p[1])); err != nil {
			return c16Unknown(err)
		}
		return "", []int{}
	case "Get":
		h, r, err := c.s.StateMachineHeightRound(w.ctx)
		if err != nil {
			if errors.Is(err, tmstore.ErrStoreUninitialized) {
				return "Uninitialized", []int{}
			}
			return c16Unknown(err)
		}
		id := -1
		for p := 1; p <= 3; p++ {
			if w.sm[p] == [2]uint64{h, uint64(r)} {
				id = p
			}
		}
		return "", []int{id}
	}
	panic("c16: sm op " + op)
}

// -- ValidatorStore

type c16Val struct {
	w *c16World
	s tmstore.ValidatorStore
}

func (c *c16Val) keyListID(got []gcrypto.PubKey) int {
	for id := 1; id <= 3; id++ {
		if slices.EqualFunc(got, c.w.keys[id], func(a, b gcrypto.PubKey) bool { return a != nil && a.Equal(b) }) {
			return id
		}
	}
	return -1
}

func (c *c16Val) powListID(got []uint64) int {
	for id := 1; id <= 3; id++ {
		if slices.Equal(got, c.w.pows[id]) {
			return id
		}
	}
	return -1
}

func (c *c16Val) Do(op string, a []int) (string, []int) {
	w := c.w
	switch op {
	case "SavePubKeys":
		hash, err := c.s.SavePubKeys(w.ctx, slices.Clone(w.keys[a[0]]))
		id := c16Index(w.keyHash[:4], hash)
		if err == nil {
			return "", []int{id}
		}
		var ex tmstore.PubKeysAlreadyExistError
		if errors.As(err, &ex) {
			if ex.ExistingHash != hash {
				return "PubKeysAlreadyExist(ExistingHash differs from returned hash)", []int{id}
			}
			return "PubKeysAlreadyExist", []int{id}
		}
		return c16Unknown(err)
	case "SaveVotePowers":
		hash, err := c.s.SaveVotePowers(w.ctx, slices.Clone(w.pows[a[0]]))
		id := c16Index(w.powHash[:4], hash)
		if err == nil {
			return "", []int{id}
		}
		var ex tmstore.VotePowersAlreadyExistError
		if errors.As(err, &ex) {
			if ex.ExistingHash != hash {
				return "VotePowersAlreadyExist(ExistingHash differs from returned hash)", []int{id}
			}
			return "VotePowersAlreadyExist", []int{id}
		}
		return c16Unknown(err)
	case "LoadPubKeys":
		want := w.keyHash[a[0]]
		got, err := c.s.LoadPubKeys(w.ctx, want)
		if err != nil {
			var nf tmstore.NoPubKeyHashError
			if errors.As(err, &nf) {
				return "NoPubKeyHash", []int{c16Index(w.keyHash[:], nf.Want)}
			}
			return c16Unknown(err)
		}
		// "returns for a hash exactly the keys that hash to it", with the real hash scheme
		if len(got) == 0 {
			return "", []int{-1}
		}
		if h, herr := w.hs.PubKeys(got); herr != nil || string(h) != want {
			return "", []int{-1}
		}
		return "", []int{c.keyListID(got)}
	case "LoadVotePowers":
		want := w.powHash[a[0]]
		got, err := c.s.LoadVotePowers(w.ctx, want)
		if err != nil {
			var nf tmstore.NoVotePowerHashError
			if errors.As(err, &nf) {
				return "NoVotePowerHash", []int{c16Index(w.powHash[:], nf.Want)}
			}
			return c16Unknown(err)
		}
		if len(got) == 0 {
			return "", []int{-1}
		}
		if h, herr := w.hs.VotePowers(got); herr != nil || string(h) != want {
			return "", []int{-1}
		}
		return "", []int{c.powListID(got)}
	case "LoadValidators":
		kh, ph := w.keyHash[a[0]], w.powHash[a[1]]
		got, err := c.s.LoadValidators(w.ctx, kh, ph)
		if err != nil {
			var nk tmstore.NoPubKeyHashError
			var np tmstore.NoVotePowerHashError
			var mm tmstore.PubKeyPowerCountMismatchError
			isK, isP := errors.As(err, &nk), errors.As(err, &np)
			switch {
			case isK && isP:
				return "NoPubKeyHash+NoVotePowerHash", []int{c16Index(w.keyHash[:], nk.Want), c16Index(w.powHash[:], np.Want)}
			case isK:
				return "NoPubKeyHash", []int{c16Index(w.keyHash[:], nk.Want)}
			case isP:
				return "NoVotePowerHash", []int{c16Index(w.powHash[:], np.Want)}
			case errors.As(err, &mm):
				return "PubKeyPowerCountMismatch", []int{mm.NPubKeys, mm.NVotePower}
			}
			return c16Unknown(err)
		}
		ks := make([]gcrypto.PubKey, len(got))
		ps := make([]uint64, len(got))
		for i, v := range got {
			ks[i], ps[i] = v.PubKey, v.Power
		}
		return "", []int{c.keyListID(ks), c.powListID(ps)}
	}
	panic("c16: val op " + op)
}

// -- RoundStore

type c16Round struct {
	w *c16World
	s tmstore.RoundStore
}

func (c *c16Round) proofID(kind string, h, r int, got tmconsensus.SparseSignatureCollection) int {
	if got.PubKeyHash == nil && got.BlockSignatures == nil {
		return 0
	}
	for p := 1; p <= 3; p++ {
		if reflect.DeepEqual(got, c.w.prf[kind][h][r][p]) {
			return p
		}
	}
	return -1
}

func (c *c16Round) Do(op string, a []int) (string, []int) {
	w := c.w
	owErr := func(h int, err error) (string, []int) {
		if err == nil {
			return "", []int{}
		}
		var ow tmstore.OverwriteError
		if errors.As(err, &ow) {
			switch ow.Field {
			case "pubkey":
				id := -1
				for i := 1; i <= 3; i++ {
					if ow.Value == fmt.Sprintf("%x", w.pk[i].PubKeyBytes()) {
						id = i
					}
				}
				return "Overwrite:pubkey", []int{id}
			case "hash":
				id := -1
				for hd := 1; hd <= 2; hd++ {
					if ow.Value == fmt.Sprintf("%x", w.hdr[h][hd].Hash) {
						id = hd
					}
				}
				return "Overwrite:hash", []int{id}
			}
			return "Overwrite:" + ow.Field, []int{}
		}
		return c16Unknown(err)
	}
	switch op {
	case "SavePH":
		h, r, hd, pk := a[0], a[1], a[2], a[3]
		return owErr(h, c.s.SaveRoundProposedHeader(w.ctx, w.rph[h][r][hd][pk]))
	case "SaveReplayed":
		h, hd := a[0], a[1]
		return owErr(h, c.s.SaveRoundReplayedHeader(w.ctx, w.hdr[h][hd]))
	case "OverwritePrevotes":
		h, r, p := a[0], a[1], a[2]
		if err := c.s.OverwriteRoundPrevoteProofs(w.ctx, uint64(h), uint32(r), w.prf["prevote"][h][r][p]); err != nil {
			return c16Unknown(err)
		}
		return "", []int{}
	case "OverwritePrecommits":
		h, r, p := a[0], a[1], a[2]
		if err := c.s.OverwriteRoundPrecommitProofs(w.ctx, uint64(h), uint32(r), w.prf["precommit"][h][r][p]); err != nil {
			return c16Unknown(err)
		}
		return "", []int{}
	case "Load":
		h, r := a[0], a[1]
		phs, pv, pc, err := c.s.LoadRoundState(w.ctx, uint64(h), uint32(r))
		if err != nil {
			var ru tmconsensus.RoundUnknownError
			if errors.As(err, &ru) {
				return "RoundUnknown", []int{int(ru.WantHeight), int(ru.WantRound)}
			}
			return c16Unknown(err)
		}
		v := []int{c.proofID("prevote", h, r, pv), c.proofID("precommit", h, r, pc), 0, 0, 0, 0, 0, 0}
		unknown := 0
		for _, ph := range phs {
			found := false
			for hd := 1; hd <= 2 && !found; hd++ {
				if reflect.DeepEqual(ph, tmconsensus.ProposedHeader{Header: w.hdr[h][hd]}) {
					v[2+3*(hd-1)]++
					found = true
				}
				for pk := 1; pk <= 2 && !found; pk++ {
					if reflect.DeepEqual(ph, w.rph[h][r][hd][pk]) {
						v[2+3*(hd-1)+pk]++
						found = true
					}
				}
			}
			if !found {
				unknown++
			}
		}
		if unknown > 0 {
			v = append(v, -unknown)
		}
		return "", v
	}
	panic("c16: round op " + op)
}

// ---------------------------------------------------------------- random operations

// c16RandOp draws an operation of the store's interface.  hot = true keeps the arguments in a
// tiny domain so that concurrent operations collide.
func c16RandOp(rng *rand.Rand, store string, hot bool) (string, []int) {
	h, r := 1+rng.Intn(c16MaxH), rng.Intn(c16MaxR+1)
	if hot {
		h, r = 1, 0
		if rng.Intn(5) == 0 {
			r = 1
		}
		if rng.Intn(8) == 0 {
			h = 2
		}
	}
	p := 1 + rng.Intn(3)
	switch store {
	case "action":
		s := 1 + rng.Intn(2)
		if hot {
			s = 1
		}
		switch rng.Intn(7) {
		case 0:
			return "SavePH", []int{h, r, 1 + rng.Intn(2)}
		case 1, 2:
			return "SavePrevote", []int{h, r, 1 + rng.Intn(2), rng.Intn(2), s}
		case 3, 4:
			return "SavePrecommit", []int{h, r, 1 + rng.Intn(2), rng.Intn(2), s}
		}
		return "Load", []int{h, r}
	case "fin", "hdr":
		if rng.Intn(2) == 0 {
			return "Save", []int{h, p}
		}
		return "Load", []int{h}
	case "mirror", "sm":
		if rng.Intn(2) == 0 {
			return "Set", []int{p}
		}
		return "Get", []int{}
	case "val":
		switch rng.Intn(8) {
		case 0, 1:
			return "SavePubKeys", []int{p}
		case 2, 3:
			return "SaveVotePowers", []int{p}
		case 4:
			return "LoadPubKeys", []int{1 + rng.Intn(4)}
		case 5:
			return "LoadVotePowers", []int{1 + rng.Intn(4)}
		}
		return "LoadValidators", []int{1 + rng.Intn(4), 1 + rng.Intn(4)}
	case "round":
		switch rng.Intn(9) {
		case 0, 1:
			return "SavePH", []int{h, r, 1 + rng.Intn(2), 1 + rng.Intn(2)}
		case 2:
			return "SaveReplayed", []int{h, 1 + rng.Intn(2)}
		case 3, 4:
			return "OverwritePrevotes", []int{h, r, p}
		case 5, 6:
			return "OverwritePrecommits", []int{h, r, p}
		}
		return "Load", []int{h, r}
	}
	panic("c16: store " + store)
}

func c16Selected() []string {
	if s := os.Getenv("VERIF_STORE"); s != "" {
		return []string{s}
	}
	return c16Stores
}

// ---------------------------------------------------------------- sequential: replay + traces

func TestVerifC16Seq(t *testing.T) {
	out := vc.Open("VERIF_OUT")
	defer out.Close()
	trace := vc.Open("VERIF_TRACE")
	defer trace.Close()
	w := newC16World()

	// spec -> code
	behs := vc.ReadNDJSON[c16Beh]("VERIF_IN")
	nBeh, nSteps, nMismatch := 0, 0, 0
	opSeen := map[string]int{}
	errSeen := map[string]int{}
	distinctSteps := map[[20]byte]struct{}{}
	distinctBeh := map[[20]byte]struct{}{}
	for bi, b := range behs {
		nBeh++
		func() {
			step := -1
			defer func() {
				if r := recover(); r != nil {
					out.Emit(vc.M{"kind": "panic", "store": b.Store, "beh": bi, "step": step, "what": fmt.Sprint(r), "hist": b.H})
					out.Flush()
				}
			}()
			s := w.newStore(b.Store)
			hh := sha1.New()
			fmt.Fprint(hh, b.Store)
			for i, o := range b.H {
				step = i
				gotErr, gotV := s.Do(o.Op, o.A)
				nSteps++
				opSeen[b.Store+"."+o.Op]++
				errSeen[b.Store+"."+o.Op+":"+gotErr]++
				fmt.Fprint(hh, "|", o.Op, o.A, gotErr, gotV)
				var k [20]byte
				copy(k[:], hh.Sum(nil))
				distinctSteps[k] = struct{}{} // distinct (store, history prefix incl. this step and its result)
				if gotErr != o.Err || !slices.Equal(gotV, o.V) {
					nMismatch++
					if nMismatch <= 200 {
						out.Emit(vc.M{"kind": "mismatch", "store": b.Store, "beh": bi, "step": i, "op": o.Op, "a": o.A,
							"exp_err": o.Err, "exp_v": o.V, "got_err": gotErr, "got_v": gotV, "hist": b.H})
					}
					return
				}
			}
			var k [20]byte
			copy(k[:], hh.Sum(nil))
			distinctBeh[k] = struct{}{}
		}()
	}

	// code -> spec: seeded random sequences over the larger domains, as single-threaded histories
	rng := rand.New(rand.NewSource(int64(vc.EnvInt("VERIF_SEED", 1))))
	nRand := vc.EnvInt("VERIF_RAND_N", 40)
	nRandOps := 0
	for _, store := range c16Stores {
		for k := 0; k < nRand; k++ {
			func() {
				defer func() {
					if r := recover(); r != nil {
						out.Emit(vc.M{"kind": "panic", "store": store, "beh": -1, "step": -1, "what": fmt.Sprint(r), "src": "random"})
					}
				}()
				s := w.newStore(store)
				trace.Emit(c16Ev{Ev: "reset", Store: store, A: []int{}, V: []int{}})
				n := 8 + rng.Intn(24)
				for i := 0; i < n; i++ {
					op, a := c16RandOp(rng, store, rng.Intn(3) == 0)
					e, v := s.Do(op, a)
					nRandOps++
					trace.Emit(c16Norm(c16Ev{Ev: "call", T: 0, Op: op, A: a, Err: e, V: v}))
					trace.Emit(c16Ev{Ev: "ret", T: 0, A: []int{}, V: []int{}})
				}
			}()
		}
	}
	trace.Emit(c16Ev{Ev: "reset", Store: "mirror", A: []int{}, V: []int{}})

	c16AliasProbes(w, out)

	out.Emit(vc.M{"kind": "summary", "behaviours": nBeh, "steps": nSteps, "mismatches": nMismatch,
		"ops_seen": opSeen, "results_seen": errSeen, "distinct_prefixes": len(distinctSteps), "distinct_behaviours": len(distinctBeh),
		"random_histories": nRand * len(c16Stores), "random_ops": nRandOps})
}

// c16AliasProbes records (as information, not as a verdict) whether the validator store keeps
// or hands out references to caller-visible slices.  The repository's convention is that such
// slices are shared and never modified (tmconsensus.ValidatorSet docs), so this is not judged.
func c16AliasProbes(w *c16World, out *vc.Out) {
	defer func() {
		if r := recover(); r != nil {
			out.Emit(vc.M{"kind": "info", "what": "alias-probe-panic", "detail": fmt.Sprint(r)})
		}
	}()
	probe := func(site string, aliased bool) {
		out.Emit(vc.M{"kind": "info", "what": "alias", "site": site, "aliased": aliased})
	}
	{
		s := tmmemstore.NewValidatorStore(w.hs)
		keys := slices.Clone(w.keys[1])
		hash, _ := s.SavePubKeys(w.ctx, keys)
		keys[0] = w.pk[3]
		got, _ := s.LoadPubKeys(w.ctx, hash)
		h2, _ := w.hs.PubKeys(got)
		probe("ValidatorStore.SavePubKeys(arg)", string(h2) != hash)
	}
	{
		s := tmmemstore.NewValidatorStore(w.hs)
		pows := slices.Clone(w.pows[1])
		hash, _ := s.SaveVotePowers(w.ctx, pows)
		pows[0] = 77
		got, _ := s.LoadVotePowers(w.ctx, hash)
		h2, _ := w.hs.VotePowers(got)
		probe("ValidatorStore.SaveVotePowers(arg)", string(h2) != hash)
	}
	{
		s := tmmemstore.NewValidatorStore(w.hs)
		hash, _ := s.SavePubKeys(w.ctx, slices.Clone(w.keys[1]))
		got, _ := s.LoadPubKeys(w.ctx, hash)
		got[0] = w.pk[3]
		got2, _ := s.LoadPubKeys(w.ctx, hash)
		h2, _ := w.hs.PubKeys(got2)
		probe("ValidatorStore.LoadPubKeys(result)", string(h2) != hash)
	}
	{
		s := tmmemstore.NewValidatorStore(w.hs)
		hash, _ := s.SaveVotePowers(w.ctx, slices.Clone(w.pows[1]))
		got, _ := s.LoadVotePowers(w.ctx, hash)
		got[0] = 77
		got2, _ := s.LoadVotePowers(w.ctx, hash)
		h2, _ := w.hs.VotePowers(got2)
		probe("ValidatorStore.LoadVotePowers(result)", string(h2) != hash)
	}
}

// ---------------------------------------------------------------- concurrent histories

// c16Log orders call/return events by a global ticket (one atomic fetch-add per event; the
// tickets are totally ordered consistently with real time).  A "call" ticket is drawn BEFORE
// the store method is invoked and a "ret" ticket AFTER it returned, so if the log says call A
// returned before call B started, that really was so: recorded intervals contain the real
// ones and a history without a linearization is a genuine finding.  (A mutex around the log
// gives the same guarantee but its hand-off latency serialises the threads.)
// Each thread appends to its own buffer; merge() sorts by ticket after all threads finished.
type c16Log struct {
	ticket int64
	buf    [4][]c16Stamped // per thread id 0..3
}

type c16Stamped struct {
	seq int64
	ev  c16Ev
}

func (l *c16Log) call(t int, op string, a []int) int {
	n := atomic.AddInt64(&l.ticket, 1)
	l.buf[t] = append(l.buf[t], c16Stamped{n, c16Ev{Ev: "call", T: t, Op: op, A: a}})
	return len(l.buf[t]) - 1
}

func (l *c16Log) ret(t, callIdx int, e string, v []int) {
	n := atomic.AddInt64(&l.ticket, 1)
	l.buf[t][callIdx].ev.Err, l.buf[t][callIdx].ev.V = e, v
	l.buf[t] = append(l.buf[t], c16Stamped{n, c16Ev{Ev: "ret", T: t, A: []int{}, V: []int{}}})
}

func (l *c16Log) merge() []c16Ev {
	var all []c16Stamped
	for _, b := range l.buf {
		all = append(all, b...)
	}
	slices.SortFunc(all, func(x, y c16Stamped) int { return int(x.seq - y.seq) })
	out := make([]c16Ev, len(all))
	for i, x := range all {
		out[i] = x.ev
	}
	return out
}

type c16PlannedOp struct {
	op string
	a  []int
}

const threads, opsPer = 3, 3

type c16Job struct {
	s        c16Store
	lg       *c16Log
	plan     [threads][]c16PlannedOp
	lockstep bool
	arrived  [opsPer]int32
	done     int32
	panicked atomic.Value
}

// c16Workers: `threads` goroutines, each locked to an OS thread, spinning on a generation
// counter; run() publishes a job and spins until all workers finished it.
type c16Workers struct {
	gen int64
	cur atomic.Pointer[c16Job]
	wg  sync.WaitGroup
}

func newC16Workers() *c16Workers {
	ws := &c16Workers{}
	for th := 0; th < threads; th++ {
		ws.wg.Add(1)
		go func(th int) {
			defer ws.wg.Done()
			runtime.LockOSThread()
			defer runtime.UnlockOSThread()
			last := int64(0)
			for {
				g := atomic.LoadInt64(&ws.gen)
				for spin := 0; g == last; spin++ {
					if spin%256 == 255 {
						runtime.Gosched()
					}
					g = atomic.LoadInt64(&ws.gen)
				}
				if g < 0 {
					return
				}
				last = g
				job := ws.cur.Load()
				job.work(th)
				atomic.AddInt32(&job.done, 1)
			}
		}(th)
	}
	return ws
}

func (ws *c16Workers) run(job *c16Job) {
	ws.cur.Store(job)
	atomic.AddInt64(&ws.gen, 1)
	for spin := 0; atomic.LoadInt32(&job.done) < threads; spin++ {
		if spin%256 == 255 {
			runtime.Gosched()
		}
	}
}

func (ws *c16Workers) stop() {
	atomic.StoreInt64(&ws.gen, -1)
	ws.wg.Wait()
}

func (job *c16Job) work(th int) {
	defer func() {
		if r := recover(); r != nil {
			job.panicked.Store(fmt.Sprint(r))
			for i := range job.arrived {
				atomic.AddInt32(&job.arrived[i], threads) // release the others
			}
		}
	}()
	for i, po := range job.plan[th] {
		if job.lockstep || i == 0 {
			atomic.AddInt32(&job.arrived[i], 1)
			for spin := 0; atomic.LoadInt32(&job.arrived[i]) < threads; spin++ {
				if spin%256 == 255 {
					runtime.Gosched()
				}
			}
		}
		idx := job.lg.call(th+1, po.op, po.a) // ticket drawn BEFORE the call
		e, v := job.s.Do(po.op, po.a)
		job.lg.ret(th+1, idx, e, v) // ticket drawn AFTER the call returned
	}
}

func TestVerifC16Conc(t *testing.T) {
	out := vc.Open("VERIF_OUT")
	defer out.Close()
	trace := vc.Open("VERIF_TRACE")
	defer trace.Close()
	w := newC16World()
	rng := rand.New(rand.NewSource(int64(vc.EnvInt("VERIF_SEED", 1)) + 7919))
	n := vc.EnvInt("VERIF_CONC_N", 200)
	workers := newC16Workers()
	defer workers.stop()

	nHist, nOverlap := 0, 0
	for _, store := range c16Selected() {
		for k := 0; k < n; k++ {
			s := w.newStore(store)
			lg := &c16Log{}
			// a short sequential prefix (thread 0) varies the state the threads start from
			for i, np := 0, rng.Intn(3); i < np; i++ {
				op, a := c16RandOp(rng, store, true)
				idx := lg.call(0, op, a)
				e, v := s.Do(op, a)
				lg.ret(0, idx, e, v)
			}
			var plan [threads][]c16PlannedOp
			for th := 0; th < threads; th++ {
				for i := 0; i < opsPer; i++ {
					op, a := c16RandOp(rng, store, true)
					plan[th] = append(plan[th], c16PlannedOp{op, a})
				}
			}
			// The three worker goroutines are long-lived and spin for the next history (see
			// c16Workers): goroutines spawned per history would all run on one P, one after the
			// other.  Spin barriers make the workers issue their k-th calls at the same moment
			// (most histories); the rest run free so that staggered schedules occur too.  A
			// barrier only delays a thread BEFORE its "call" ticket, it never narrows an interval.
			job := &c16Job{s: s, lg: lg, plan: plan, lockstep: rng.Intn(4) != 0}
			for th := 0; th < threads; th++ {
				lg.buf[th+1] = make([]c16Stamped, 0, 2*opsPer) // no allocation between ticket and call
			}
			workers.run(job)
			panicked := &job.panicked
			if p := panicked.Load(); p != nil {
				out.Emit(vc.M{"kind": "panic", "store": store, "what": p, "src": "concurrent", "events": lg.merge()})
				continue
			}
			nHist++
			open := 0
			overlapped := false
			trace.Emit(c16Ev{Ev: "reset", Store: store, A: []int{}, V: []int{}})
			for _, e := range lg.merge() {
				if e.Ev == "call" {
					open++
					if open > 1 {
						overlapped = true
					}
				} else {
					open--
				}
				trace.Emit(c16Norm(e))
			}
			if overlapped {
				nOverlap++
			}
		}
	}
	trace.Emit(c16Ev{Ev: "reset", Store: "mirror", A: []int{}, V: []int{}})
	out.Emit(vc.M{"kind": "summary", "src": "concurrent", "histories": nHist, "overlapping": nOverlap, "stores": c16Selected()})
}

// TestVerifC16Stress: unlogged concurrent use (the stores document support for it by carrying a
// mutex); any unsynchronised access shows up in the race detector or as a runtime fatal error.
func TestVerifC16Stress(t *testing.T) {
	out := vc.Open("VERIF_OUT")
	defer out.Close()
	w := newC16World()
	seed := int64(vc.EnvInt("VERIF_SEED", 1))
	nOps := vc.EnvInt("VERIF_STRESS_OPS", 2000)
	const threads = 8
	total := 0
	for _, store := range c16Selected() {
		for round := 0; round < 4; round++ {
			s := w.newStore(store)
			var wg sync.WaitGroup
			var bad atomic.Value
			for th := 0; th < threads; th++ {
				wg.Add(1)
				go func(th int) {
					defer wg.Done()
					defer func() {
						if r := recover(); r != nil {
							bad.Store(fmt.Sprint(r))
						}
					}()
					rng := rand.New(rand.NewSource(seed*1000 + int64(round*threads+th)))
					for i := 0; i < nOps/4; i++ {
						op, a := c16RandOp(rng, store, rng.Intn(2) == 0)
						e, v := s.Do(op, a)
						if len(e) > 1 && e[0] == '?' {
							bad.Store("undocumented error " + e)
						}
						for _, x := range v {
							// a value that was never stored (torn read, foreign value)
							if x < 0 {
								bad.Store(fmt.Sprintf("%s %v returned a value that was never saved: %v", op, a, v))
							}
						}
					}
				}(th)
			}
			wg.Wait()
			total += threads * (nOps / 4)
			if b := bad.Load(); b != nil {
				out.Emit(vc.M{"kind": "stress-anomaly", "store": store, "what": b})
			}
		}
	}
	out.Emit(vc.M{"kind": "summary", "src": "stress", "ops": total, "stores": c16Selected()})
}

// c16Norm makes sure no slice is marshalled as null (TLC compares with <<>>).
func c16Norm(e c16Ev) c16Ev {
	if e.A == nil {
		e.A = []int{}
	}
	if e.V == nil {
		e.V = []int{}
	}
	return e
}

var _ = json.Marshal
