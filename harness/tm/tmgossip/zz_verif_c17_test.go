package tmgossip

// C17 conformance harness (overlaid into /repo/tm/tmgossip by /verif/bin/check).
//
// spec -> code: behaviours exported by TLC from spec/Chatty.tla (sequences of NetworkViewUpdates the
// engine can produce, with the broadcasts the spec expects for each) are replayed on the real
// ChattyStrategy wired to a recording ConsensusBroadcaster.  Views are built from real fixtures
// (ed25519 validators, signed proposed headers, real signature proofs).
// code -> spec: for every step the update and the messages really sent are written to $VERIF_TRACE
// for spec/ChattyTrace.tla.
//
// Quiescence is judged without timing: all channels are unbuffered and the harness goroutine is the
// only counterpart of the strategy goroutine.  It runs one select over {send next update, receive
// from the three Outgoing* channels}.  The strategy returns to its `case u := <-updates` only after
// every send for the previous update has completed, so when the next update (or the final empty
// "round session changes only" update) is accepted, everything the strategy will ever broadcast for
// the previous update has been recorded.

import (
	"bytes"
	"context"
	"encoding/hex"
	"fmt"
	"io"
	"log/slog"
	"math/rand"
	"os"
	"sort"
	"strings"
	"sync"
	"testing"
	"time"

	"github.com/gordian-engine/gordian/gcrypto"
	vc "github.com/gordian-engine/gordian/internal/verifcommon"
	"github.com/gordian-engine/gordian/tm/tmconsensus"
	"github.com/gordian-engine/gordian/tm/tmconsensus/tmconsensustest"
	"github.com/gordian-engine/gordian/tm/tmengine/tmelink"
)

type c17Item struct {
	T string `json:"t"`
	S string `json:"s"`
}

type c17View struct {
	On  bool      `json:"on"`
	H   uint64    `json:"h"`
	R   uint32    `json:"r"`
	Phs []string  `json:"phs"`
	Pv  []c17Item `json:"pv"`
	Pc  []c17Item `json:"pc"`
}

type c17Update struct {
	C   c17View `json:"C"`
	V   c17View `json:"V"`
	N   c17View `json:"N"`
	NVR c17View `json:"NVR"`
}

type c17Group struct {
	K     string    `json:"k"`
	H     uint64    `json:"h"`
	R     uint32    `json:"r"`
	Items []c17Item `json:"items"`
}

type c17Step struct {
	Op   string     `json:"op"`
	U    c17Update  `json:"u"`
	Exp0 []c17Group `json:"exp0"`
	Same bool       `json:"same"`
	Exp1 []c17Group `json:"exp1"`
}

type c17Beh struct {
	ID    int       `json:"id"`
	Src   string    `json:"src"`
	Vals  []string  `json:"vals"`
	Steps []c17Step `json:"steps"`
}

// entry is one thing that can be offered to the broadcaster.
type c17Entry struct {
	K string
	H uint64
	R uint32
	T string
	S string
}

func (e c17Entry) String() string { return fmt.Sprintf("%s/%d/%d/%s/%s", e.K, e.H, e.R, e.T, e.S) }

const c17NoS = "-"
const c17Nil = "NilT"

// world holds the real objects standing for the abstract names, for one validator count.
type c17World struct {
	fx     *tmconsensustest.Fixture
	valIdx map[string]int
	vals   []string

	headers  map[string]tmconsensus.Header         // "h/x" -> header
	hashName map[string]string                     // "h/<raw hash>" -> x
	phs      map[string]tmconsensus.ProposedHeader // "h/r/x"
	phBySig  map[string]c17Entry                   // signature -> entry
	sigs     map[c17Entry][]byte
	voteBy   map[string]c17Entry // signature -> entry
	proofC   map[string]gcrypto.CommonMessageSignatureProof
	valSet   tmconsensus.ValidatorSet
}

func newC17World(vals []string) *c17World {
	w := &c17World{
		fx:       tmconsensustest.NewEd25519Fixture(len(vals)),
		valIdx:   map[string]int{},
		vals:     vals,
		headers:  map[string]tmconsensus.Header{},
		hashName: map[string]string{},
		phs:      map[string]tmconsensus.ProposedHeader{},
		phBySig:  map[string]c17Entry{},
		sigs:     map[c17Entry][]byte{},
		voteBy:   map[string]c17Entry{},
		proofC:   map[string]gcrypto.CommonMessageSignatureProof{},
	}
	w.valSet = w.fx.ValSet()
	for i, v := range vals {
		w.valIdx[v] = i
	}
	return w
}

func (w *c17World) header(h uint64, x string) tmconsensus.Header {
	key := fmt.Sprintf("%d/%s", h, x)
	if hd, ok := w.headers[key]; ok {
		return hd
	}
	ph := w.fx.NextProposedHeader([]byte("app_data_"+key), 0)
	ph.Header.Height = h
	if h > 1 {
		ph.Header.PrevBlockHash = []byte(fmt.Sprintf("prev_block_hash_%d", h-1))
	}
	w.fx.RecalculateHash(&ph.Header)
	w.headers[key] = ph.Header
	w.hashName[fmt.Sprintf("%d/%s", h, ph.Header.Hash)] = x
	return ph.Header
}

func (w *c17World) blockHash(h uint64, t string) string {
	if t == c17Nil {
		return ""
	}
	return string(w.header(h, t).Hash)
}

func (w *c17World) ph(ctx context.Context, h uint64, r uint32, x string) tmconsensus.ProposedHeader {
	key := fmt.Sprintf("%d/%d/%s", h, r, x)
	if p, ok := w.phs[key]; ok {
		return p
	}
	p := tmconsensus.ProposedHeader{Header: w.header(h, x), Round: r}
	// the proposer differs per block id so that two proposals of one round come from two keys
	w.fx.SignProposal(ctx, &p, (int(x[0])+int(r))%len(w.vals))
	w.phs[key] = p
	w.phBySig[string(p.Signature)] = c17Entry{K: "ph", H: h, R: r, T: x, S: c17NoS}
	return p
}

func (w *c17World) sig(ctx context.Context, e c17Entry) []byte {
	if s, ok := w.sigs[e]; ok {
		return s
	}
	vt := tmconsensus.VoteTarget{Height: e.H, Round: e.R, BlockHash: w.blockHash(e.H, e.T)}
	var s []byte
	if e.K == "pv" {
		s = w.fx.PrevoteSignature(ctx, vt, w.valIdx[e.S])
	} else {
		s = w.fx.PrecommitSignature(ctx, vt, w.valIdx[e.S])
	}
	w.sigs[e] = s
	w.voteBy[string(s)] = e
	return s
}

func (w *c17World) proofs(ctx context.Context, k string, h uint64, r uint32, items []c17Item) map[string]gcrypto.CommonMessageSignatureProof {
	byT := map[string][]int{}
	for _, it := range items {
		byT[it.T] = append(byT[it.T], w.valIdx[it.S])
		w.sig(ctx, c17Entry{K: k, H: h, R: r, T: it.T, S: it.S}) // register
	}
	out := make(map[string]gcrypto.CommonMessageSignatureProof, len(byT))
	for t, idxs := range byT {
		sort.Ints(idxs)
		vt := tmconsensus.VoteTarget{Height: h, Round: r, BlockHash: w.blockHash(h, t)}
		// real proofs, built once per distinct signer set (the strategy only reads them)
		ck := fmt.Sprintf("%s/%d/%d/%s/%v", k, h, r, t, idxs)
		p, ok := w.proofC[ck]
		if !ok {
			if k == "pv" {
				p = w.fx.PrevoteSignatureProof(ctx, vt, nil, idxs)
			} else {
				p = w.fx.PrecommitSignatureProof(ctx, vt, nil, idxs)
			}
			w.proofC[ck] = p
		}
		out[vt.BlockHash] = p
	}
	return out
}

// run state of one behaviour
type c17Run struct {
	w       *c17World
	rng     *rand.Rand
	phOrder map[string][]string // "h/r" -> insertion order of block ids (the mirror appends)
	version map[string]uint32
}

func (rn *c17Run) view(ctx context.Context, v c17View) *tmconsensus.VersionedRoundView {
	if !v.On {
		return nil
	}
	key := fmt.Sprintf("%d/%d", v.H, v.R)
	order := rn.phOrder[key]
	var fresh []string
	for _, x := range v.Phs {
		found := false
		for _, o := range order {
			if o == x {
				found = true
			}
		}
		if !found {
			fresh = append(fresh, x)
		}
	}
	sort.Strings(fresh)
	rn.rng.Shuffle(len(fresh), func(i, j int) { fresh[i], fresh[j] = fresh[j], fresh[i] })
	order = append(order, fresh...)
	rn.phOrder[key] = order
	rn.version[key]++

	vrv := &tmconsensus.VersionedRoundView{
		RoundView: tmconsensus.RoundView{
			Height:          v.H,
			Round:           v.R,
			ValidatorSet:    rn.w.valSet,
			PrevoteProofs:   rn.w.proofs(ctx, "pv", v.H, v.R, v.Pv),
			PrecommitProofs: rn.w.proofs(ctx, "pc", v.H, v.R, v.Pc),
			VoteSummary:     tmconsensus.NewVoteSummary(),
		},
		Version:          rn.version[key],
		PrevoteVersion:   1 + uint32(len(v.Pv)),
		PrecommitVersion: 1 + uint32(len(v.Pc)),
	}
	for _, x := range order {
		vrv.ProposedHeaders = append(vrv.ProposedHeaders, rn.w.ph(ctx, v.H, v.R, x))
	}
	vrv.VoteSummary.SetAvailablePower(vrv.ValidatorSet.Validators)
	vrv.VoteSummary.SetPrevotePowers(vrv.ValidatorSet.Validators, vrv.PrevoteProofs)
	vrv.VoteSummary.SetPrecommitPowers(vrv.ValidatorSet.Validators, vrv.PrecommitProofs)
	return vrv
}

func c17ViewEntries(v c17View, onlyPC bool) []c17Entry {
	if !v.On {
		return nil
	}
	var out []c17Entry
	if !onlyPC {
		for _, x := range v.Phs {
			out = append(out, c17Entry{K: "ph", H: v.H, R: v.R, T: x, S: c17NoS})
		}
		for _, it := range v.Pv {
			out = append(out, c17Entry{K: "pv", H: v.H, R: v.R, T: it.T, S: it.S})
		}
	}
	for _, it := range v.Pc {
		out = append(out, c17Entry{K: "pc", H: v.H, R: v.R, T: it.T, S: it.S})
	}
	return out
}

// recording broadcaster; unbuffered so that the harness goroutine is the only counterpart.
type c17Recorder struct {
	ph chan tmconsensus.ProposedHeader
	pv chan tmconsensus.PrevoteSparseProof
	pc chan tmconsensus.PrecommitSparseProof
}

func (r *c17Recorder) OutgoingProposedHeaders() chan<- tmconsensus.ProposedHeader { return r.ph }
func (r *c17Recorder) OutgoingPrevoteProofs() chan<- tmconsensus.PrevoteSparseProof { return r.pv }
func (r *c17Recorder) OutgoingPrecommitProofs() chan<- tmconsensus.PrecommitSparseProof {
	return r.pc
}

// decode real messages into abstract groups.  Anything that is not exactly an object the harness
// put into a view decodes to an item with T starting with "?" (foreign).
func (w *c17World) decodePH(p tmconsensus.ProposedHeader) c17Group {
	g := c17Group{K: "ph", H: p.Header.Height, R: p.Round}
	e, ok := w.phBySig[string(p.Signature)]
	if !ok || e.H != g.H || e.R != g.R || !bytes.Equal(w.phs[fmt.Sprintf("%d/%d/%s", e.H, e.R, e.T)].Header.Hash, p.Header.Hash) {
		g.Items = []c17Item{{T: "?ph:" + hex.EncodeToString(p.Header.Hash), S: c17NoS}}
		return g
	}
	g.Items = []c17Item{{T: e.T, S: c17NoS}}
	return g
}

func (w *c17World) decodeVotes(k string, h uint64, r uint32, proofs map[string][]gcrypto.SparseSignature) c17Group {
	g := c17Group{K: k, H: h, R: r, Items: []c17Item{}}
	for hash, sigs := range proofs {
		tname, okT := w.hashName[fmt.Sprintf("%d/%s", h, hash)]
		if hash == "" {
			tname, okT = c17Nil, true
		}
		for _, s := range sigs {
			e, ok := w.voteBy[string(s.Sig)]
			if !ok || !okT || e.K != k || e.H != h || e.R != r || e.T != tname {
				g.Items = append(g.Items, c17Item{T: fmt.Sprintf("?%s:%x:%x", k, hash, s.KeyID), S: e.S})
				continue
			}
			g.Items = append(g.Items, c17Item{T: e.T, S: e.S})
		}
	}
	return g
}

func c17SortItems(it []c17Item) []c17Item {
	out := append([]c17Item{}, it...)
	sort.Slice(out, func(i, j int) bool {
		if out[i].T != out[j].T {
			return out[i].T < out[j].T
		}
		return out[i].S < out[j].S
	})
	return out
}

func c17GroupsEqual(a, b []c17Group) bool {
	if len(a) != len(b) {
		return false
	}
	for i := range a {
		if a[i].K != b[i].K || a[i].H != b[i].H || a[i].R != b[i].R || len(a[i].Items) != len(b[i].Items) {
			return false
		}
		x, y := c17SortItems(a[i].Items), c17SortItems(b[i].Items)
		for j := range x {
			if x[j] != y[j] {
				return false
			}
		}
	}
	return true
}

type c17Violation struct {
	Pred   string   `json:"pred"`
	Step   int      `json:"step"`
	Class  string   `json:"class"`
	Site   string   `json:"site"`
	Items  []string `json:"items"`
	Detail string   `json:"detail,omitempty"`
}

type c17Result struct {
	Stall      string
	StepMsgs   [][]c17Group // per real step (incl. inserted empty ones)
	StepOps    []string
	StepU      []c17Update
	Match0     int
	Match1     int
	Mismatch   []vc.M
	Violations []c17Violation
	NOffered   int
	Classes    map[string]bool
}

// one execution of a behaviour on a fresh ChattyStrategy.
func c17Execute(w *c17World, b c17Beh, seed int64, settle time.Duration) (res c17Result) {
	res.Classes = map[string]bool{}
	ctx, cancel := context.WithCancel(context.Background())
	defer cancel()

	rec := &c17Recorder{
		ph: make(chan tmconsensus.ProposedHeader),
		pv: make(chan tmconsensus.PrevoteSparseProof),
		pc: make(chan tmconsensus.PrecommitSparseProof),
	}
	log := slog.New(slog.NewTextHandler(io.Discard, nil))
	strat := NewChattyStrategy(ctx, log, rec)
	updates := make(chan tmelink.NetworkViewUpdate) // unbuffered, as in tmengine.New
	strat.Start(updates)
	defer func() {
		cancel()
		strat.Wait()
	}()

	rn := &c17Run{w: w, rng: rand.New(rand.NewSource(seed)), phOrder: map[string][]string{}, version: map[string]uint32{}}

	// real step list: behaviour steps, with seeded empty (session-changes-only) updates in between
	// and always one at the end (the final barrier).
	type rstep struct {
		op  string
		u   c17Update
		idx int // index into b.Steps or -1
	}
	var steps []rstep
	for i, st := range b.Steps {
		steps = append(steps, rstep{op: "update", u: st.U, idx: i})
		if i < len(b.Steps)-1 && rn.rng.Intn(4) == 0 {
			steps = append(steps, rstep{op: "empty", idx: -1})
		}
	}
	steps = append(steps, rstep{op: "empty", idx: -1})

	cur := -1 // real step whose broadcasts are being collected
	var curMsgs []c17Group
	record := func(g c17Group) {
		if cur < 0 {
			res.Stall = "message before the first update"
			return
		}
		// a run of proposed headers of one view is one group
		if g.K == "ph" && len(curMsgs) > 0 {
			last := &curMsgs[len(curMsgs)-1]
			if last.K == "ph" && last.H == g.H && last.R == g.R {
				last.Items = append(last.Items, g.Items...)
				return
			}
		}
		curMsgs = append(curMsgs, g)
	}

	for si, st := range steps {
		var u tmelink.NetworkViewUpdate
		if st.op == "update" {
			u = tmelink.NetworkViewUpdate{
				Committing:    rn.view(ctx, st.u.C),
				Voting:        rn.view(ctx, st.u.V),
				NextRound:     rn.view(ctx, st.u.N),
				NilVotedRound: rn.view(ctx, st.u.NVR),
			}
		} else {
			u = tmelink.NetworkViewUpdate{RoundSessionChanges: []tmelink.RoundSessionChange{
				{Height: 1, Round: 0, State: tmelink.RoundSessionStateActive},
			}}
		}
		deadline := time.NewTimer(settle)
	SEND:
		for {
			select {
			case updates <- u:
				break SEND
			case p := <-rec.ph:
				record(w.decodePH(p))
			case p := <-rec.pv:
				record(w.decodeVotes("pv", p.Height, p.Round, p.Proofs))
			case p := <-rec.pc:
				record(w.decodeVotes("pc", p.Height, p.Round, p.Proofs))
			case <-strat.kernelDone:
				res.Stall = fmt.Sprintf("strategy kernel exited before accepting real step %d", si)
				deadline.Stop()
				return res
			case <-deadline.C:
				res.Stall = fmt.Sprintf("strategy did not accept real step %d within %s", si, settle)
				return res
			}
		}
		deadline.Stop()
		if cur >= 0 {
			res.StepMsgs = append(res.StepMsgs, curMsgs)
		}
		cur = si
		curMsgs = []c17Group{}
		res.StepOps = append(res.StepOps, st.op)
		res.StepU = append(res.StepU, st.u)
	}
	// the final empty update was accepted: the strategy is back in its select, nothing more can come
	// for earlier steps.  Its own (empty) step produces nothing; cancel() in the deferred func stops it.
	res.StepMsgs = append(res.StepMsgs, curMsgs)

	// ---- evaluate on what really happened
	offered := map[c17Entry]bool{}
	seenAll := map[c17Entry]bool{}
	seenReq := map[c17Entry]string{} // entry -> pointer it was first required through
	var prev [3]c17View             // last received C, V, N (to name the site)
	started := false
	bi := 0
	for ri, op := range res.StepOps {
		msgs := res.StepMsgs[ri]
		if op == "empty" {
			if len(msgs) != 0 {
				res.Mismatch = append(res.Mismatch, vc.M{"step": ri, "what": "broadcast on an update without views", "got": msgs})
			}
			for _, g := range msgs {
				for _, it := range g.Items {
					offered[c17Entry{K: g.K, H: g.H, R: g.R, T: it.T, S: it.S}] = true
				}
			}
			continue
		}
		st := b.Steps[bi]
		bi++
		u := res.StepU[ri]
		site := map[c17Entry]string{}
		for pi, pv := range []c17View{u.C, u.V, u.N} {
			name := []string{"Committing", "Voting", "NextRound"}[pi]
			path := "new-hr"
			if !started {
				path = "first"
			} else if pv.On && prev[pi].H == pv.H && prev[pi].R == pv.R {
				path = "same-hr"
			}
			for _, e := range c17ViewEntries(pv, false) {
				seenAll[e] = true
				if _, ok := seenReq[e]; !ok {
					seenReq[e] = name + ":" + path
				}
				site[e] = name + ":" + path
			}
			if pv.On {
				prev[pi] = pv
			}
		}
		for _, e := range c17ViewEntries(u.NVR, false) {
			seenAll[e] = true
		}
		for _, e := range c17ViewEntries(u.NVR, true) {
			if _, ok := seenReq[e]; !ok {
				seenReq[e] = "NilVotedRound"
			}
		}
		started = true

		var foreign, unsound []string
		for _, g := range msgs {
			for _, it := range g.Items {
				e := c17Entry{K: g.K, H: g.H, R: g.R, T: it.T, S: it.S}
				offered[e] = true
				if strings.HasPrefix(it.T, "?") {
					foreign = append(foreign, e.String())
				} else if !seenAll[e] {
					unsound = append(unsound, e.String())
				}
			}
		}
		if len(foreign) > 0 {
			sort.Strings(foreign)
			res.Violations = append(res.Violations, c17Violation{Pred: "Sound", Step: ri, Class: "foreign-object", Site: "broadcast", Items: foreign})
		}
		if len(unsound) > 0 {
			sort.Strings(unsound)
			res.Violations = append(res.Violations, c17Violation{Pred: "Sound", Step: ri, Class: "entry-not-in-any-received-view", Site: "broadcast", Items: unsound})
		}

		// Complete at this quiescent point
		missBy := map[string][]string{}
		for e, where := range seenReq {
			if offered[e] {
				continue
			}
			class := e.K
			if e.K != "ph" {
				// equivocation: the signer has another target in the same (kind,h,r) among received entries
				for o := range seenAll {
					if o.K == e.K && o.H == e.H && o.R == e.R && o.S == e.S && o.T != e.T {
						class = "vote:equivocation"
					}
				}
			}
			if w2, ok := site[e]; ok {
				where = w2
			}
			missBy[class+"@"+where] = append(missBy[class+"@"+where], e.String())
		}
		for key, items := range missBy {
			sort.Strings(items)
			parts := strings.SplitN(key, "@", 2)
			res.Violations = append(res.Violations, c17Violation{Pred: "Complete", Step: ri, Class: parts[0], Site: parts[1], Items: items})
		}

		// conformance with the spec's expectation (both variants)
		m0 := c17GroupsEqual(msgs, st.Exp0)
		exp1 := st.Exp1
		if st.Same {
			exp1 = st.Exp0
		}
		m1 := c17GroupsEqual(msgs, exp1)
		if m0 {
			res.Match0++
		}
		if m1 {
			res.Match1++
		}
		if !m0 && !m1 {
			res.Mismatch = append(res.Mismatch, vc.M{"step": ri, "what": "broadcasts differ from both spec variants", "got": msgs, "exp0": st.Exp0, "exp1": exp1})
		}
		// coverage classes of this step
		cls := fmt.Sprintf("C%v V%v N%v NVR%v", u.C.On, u.V.On, u.N.On, u.NVR.On)
		res.Classes[cls] = true
		if !st.Same {
			res.Classes["equivocation-only-change"] = true
		}
	}
	res.NOffered = len(offered)
	sort.Slice(res.Violations, func(i, j int) bool {
		a, b := res.Violations[i], res.Violations[j]
		if a.Step != b.Step {
			return a.Step < b.Step
		}
		if a.Pred != b.Pred {
			return a.Pred < b.Pred
		}
		return a.Class+a.Site < b.Class+b.Site
	})
	return res
}

func c17VioKey(v []c17Violation) string {
	var sb strings.Builder
	for _, x := range v {
		fmt.Fprintf(&sb, "%s|%d|%s|%s|%s;", x.Pred, x.Step, x.Class, x.Site, strings.Join(x.Items, ","))
	}
	return sb.String()
}

func TestVerifC17(t *testing.T) {
	out := vc.Open("VERIF_OUT")
	defer out.Close()
	trace := vc.Open("VERIF_TRACE")
	defer trace.Close()
	seed := int64(vc.EnvInt("VERIF_SEED", 1))
	settle := time.Duration(vc.EnvInt("VERIF_SETTLE_MS", 30000)) * time.Millisecond
	traceEvery := vc.EnvInt("VERIF_TRACE_EVERY", 1)
	skip := map[int]bool{}
	for _, s := range strings.Split(os.Getenv("VERIF_SKIP"), ",") {
		var id int
		if _, err := fmt.Sscanf(s, "%d", &id); err == nil {
			skip[id] = true
		}
	}

	behs := vc.ReadNDJSON[c17Beh]("VERIF_IN")
	var nBeh, nSteps, nStepsReal, match0, match1, nMis, nVio, nConfirmed, nFlaky, nStall, nTraced int
	classes := map[string]bool{}
	distinct := map[string]struct{}{}
	var mu sync.Mutex // protects the counters above and keeps one behaviour's trace lines contiguous

	work := make(chan c17Beh)
	var wg sync.WaitGroup
	nWorkers := vc.EnvInt("VERIF_WORKERS", 8)
	for wi := 0; wi < nWorkers; wi++ {
		wg.Add(1)
		go func() {
			defer wg.Done()
			worlds := map[string]*c17World{} // per worker: fixtures are not shared between goroutines
			for b := range work {
				wk := strings.Join(b.Vals, ",")
				w, ok := worlds[wk]
				if !ok {
					w = newC17World(b.Vals)
					worlds[wk] = w
				}
				// log the input before running it: a panic in the strategy goroutine kills the process;
				// the parent then re-runs with one worker and attributes the crash to the last started one.
				out.Emit(vc.M{"kind": "start", "id": b.ID})
				out.Flush()

				bseed := seed*1000003 + int64(b.ID)
				res := c17Execute(w, b, bseed, settle)
				if res.Stall != "" {
					mu.Lock()
					nBeh++
					nStall++
					mu.Unlock()
					out.Emit(vc.M{"kind": "stall", "id": b.ID, "src": b.Src, "what": res.Stall})
					continue
				}
				confirmed, flaky := false, false
				if len(res.Violations) > 0 {
					// confirm: the same violations must come out of two more independent executions
					k0 := c17VioKey(res.Violations)
					confirmed = true
					for rep := 0; rep < 2; rep++ {
						r2 := c17Execute(w, b, bseed, settle)
						if r2.Stall != "" || c17VioKey(r2.Violations) != k0 {
							confirmed, flaky = false, true
						}
					}
				}
				mu.Lock()
				nBeh++
				nSteps += len(b.Steps)
				nStepsReal += len(res.StepOps)
				match0 += res.Match0
				match1 += res.Match1
				for c := range res.Classes {
					classes[c] = true
				}
				for ri, op := range res.StepOps {
					if op == "update" {
						distinct[fmt.Sprintf("%v|%v", res.StepU[ri], res.StepMsgs[ri])] = struct{}{}
					}
				}
				for _, m := range res.Mismatch {
					nMis++
					m["kind"] = "mismatch"
					m["id"] = b.ID
					m["src"] = b.Src
					out.Emit(m)
				}
				if flaky {
					nFlaky++
					out.Emit(vc.M{"kind": "flaky", "id": b.ID, "src": b.Src, "violations": res.Violations})
				}
				if confirmed {
					nConfirmed++
					for _, v := range res.Violations {
						nVio++
						out.Emit(vc.M{"kind": "violation", "id": b.ID, "src": b.Src, "pred": v.Pred, "step": v.Step,
							"class": v.Class, "site": v.Site, "items": v.Items, "behaviour": b})
					}
				}
				if b.Src == "sim" || (traceEvery > 0 && b.ID%traceEvery == 0) {
					nTraced++
					trace.Emit(vc.M{"op": "reset", "id": b.ID})
					for ri, op := range res.StepOps {
						trace.Emit(vc.M{"op": op, "id": b.ID, "u": c17NormUpdate(res.StepU[ri]), "msgs": c17NormGroups(res.StepMsgs[ri])})
					}
				}
				mu.Unlock()
				out.Emit(vc.M{"kind": "done", "id": b.ID})
			}
		}()
	}
	for _, b := range behs {
		if !skip[b.ID] {
			work <- b
		}
	}
	close(work)
	wg.Wait()
	var cl []string
	for c := range classes {
		cl = append(cl, c)
	}
	sort.Strings(cl)
	out.Emit(vc.M{"kind": "summary", "behaviours": nBeh, "steps": nSteps, "real_steps": nStepsReal, "match0": match0, "match1": match1,
		"mismatches": nMis, "violations": nVio, "violating_behaviours": nConfirmed, "flaky": nFlaky, "stalls": nStall,
		"traced": nTraced, "trace_events": trace.Count(), "classes": cl, "distinct": len(distinct)})
}

// JSON without nulls (TLC's ndJsonDeserialize wants arrays, not null)
func c17NormItems(it []c17Item) []c17Item {
	if it == nil {
		return []c17Item{}
	}
	return it
}

func c17NormView(v c17View) c17View {
	if v.Phs == nil {
		v.Phs = []string{}
	}
	v.Pv = c17NormItems(v.Pv)
	v.Pc = c17NormItems(v.Pc)
	return v
}

func c17NormUpdate(u c17Update) c17Update {
	return c17Update{C: c17NormView(u.C), V: c17NormView(u.V), N: c17NormView(u.N), NVR: c17NormView(u.NVR)}
}

func c17NormGroups(g []c17Group) []c17Group {
	out := make([]c17Group, 0, len(g))
	for _, x := range g {
		x.Items = c17NormItems(x.Items)
		out = append(out, x)
	}
	return out
}
