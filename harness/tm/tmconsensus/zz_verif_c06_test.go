package tmconsensus_test

// C06 conformance harness for tm/tmconsensus/votesummary.go (overlaid into /repo by /verif/bin/check).
// Every event of the plan (TLC-exported proof-map states and behaviours of VoteSummary.tla, seeded
// random larger cases) is instantiated with real ed25519 signature proofs and fed to the REAL
// VoteSummary.SetAvailablePower / SetPrevotePowers / SetPrecommitPowers / SetVotePowers, several
// times with differently built maps and on fresh as well as used VoteSummary values.  The results
// are compared with the specification's expectation (internal/verifc06) and written to the trace
// for VoteSummaryTrace.tla.

import (
	"fmt"
	"math/rand"
	"reflect"
	"testing"

	c06 "github.com/gordian-engine/gordian/internal/verifc06"
	vc "github.com/gordian-engine/gordian/internal/verifcommon"
	"github.com/gordian-engine/gordian/tm/tmconsensus"
)

func TestVerifC06(t *testing.T) {
	out := vc.Open("VERIF_OUT")
	defer out.Close()
	trace := vc.Open("VERIF_TRACE")
	defer trace.Close()
	reps := vc.EnvInt("VERIF_REPS", 4)
	rng := rand.New(rand.NewSource(int64(vc.EnvInt("VERIF_SEED", 1))))

	evs := c06.Plan()
	chk := c06.NewChecker(out)
	var w *c06.World
	nWorld := 0
	// a long-lived summary that is reused across events, like the one inside a round view
	used := tmconsensus.NewVoteSummary()

	observe := func(ev *c06.Event, r int) (o c06.ObsSum, unk []string) {
		inc := ev.Op != "load"
		pv := w.ProofMap("prevote", inc, rng)
		pc := w.ProofMap("precommit", inc, rng)
		var vs *tmconsensus.VoteSummary
		if r%2 == 0 {
			fresh := tmconsensus.NewVoteSummary()
			vs = &fresh
		} else {
			vs = &used // holds the previous event's numbers: Set*Powers must overwrite all of them
		}
		vs.SetAvailablePower(w.Vals)
		switch r % 3 {
		case 0:
			vs.SetVotePowers(w.Vals, pv, pc)
		case 1:
			vs.SetPrecommitPowers(w.Vals, pc)
			vs.SetPrevotePowers(w.Vals, pv)
		default:
			vs.SetPrevotePowers(w.Vals, pv)
			vs.SetPrecommitPowers(w.Vals, pc)
		}
		return w.Project(vs.Clone())
	}

	for i := range evs {
		ev := &evs[i]
		if ev.Op == "reset" {
			w = c06.NewWorld(ev.Pow, nWorld)
			nWorld++
			if ev.Trace {
				trace.Emit(vc.M{"i": ev.I, "op": "reset", "pow": ev.Pow})
			}
			continue
		}
		func() {
			defer func() {
				if r := recover(); r != nil {
					out.Emit(vc.M{"kind": "panic", "i": ev.I, "src": ev.Src, "pow": ev.Pow, "what": fmt.Sprint(r), "state": w.StateJSON()})
				}
			}()
			w.Apply(ev)
			chk.Tally(ev, w)
			first, unk := observe(ev, 0)
			if len(unk) > 0 {
				out.Emit(vc.M{"kind": "violation", "predicate": "BlockPowerIsSigners", "site": "Set*Powers", "class": "unknown-hash",
					"what": fmt.Sprintf("block power reported for hashes nobody signed: %v", unk), "i": ev.I, "src": ev.Src, "state": w.StateJSON()})
			}
			for r := 1; r < reps; r++ {
				o, _ := observe(ev, r)
				if !reflect.DeepEqual(o, first) {
					out.Emit(vc.M{"kind": "violation", "predicate": "Deterministic", "site": "Set*Powers", "class": "same-input-different-summary",
						"what": fmt.Sprintf("the same proofs gave two different summaries (map order / reused summary): %+v vs %+v", first, o),
						"i":    ev.I, "src": ev.Src, "pow": ev.Pow, "state": w.StateJSON()})
					break
				}
			}
			chk.CheckSummary(ev, w, first)
			if ev.Trace {
				m := vc.M{"i": ev.I, "op": ev.Op, "obs": first}
				switch ev.Op {
				case "load":
					m["votes"], m["keys"] = ev.Votes, ev.Keys
				default:
					m["kind"], m["val"], m["tgt"] = ev.Kind, ev.Val, ev.Tgt
				}
				trace.Emit(m)
			}
		}()
	}
	chk.Summary("tmconsensus", vc.M{"worlds": nWorld, "reps": reps})
}
