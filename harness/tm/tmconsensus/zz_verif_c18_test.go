package tmconsensus_test

// C18 conformance harness (overlaid into /repo/tm/tmconsensus by /verif/bin/check).
// spec -> code: the table exported by TLC from Thresholds.tla is compared with the Go functions.
// code -> spec: triples computed by the Go functions are written for ThresholdsTrace.tla.
// Beyond TLC's 32-bit integers the proved characterisation (3m > 2n, 3(m-1) <= 2n; 3m >= n,
// 3(m-1) < n) is evaluated in math/big on boundary values and seeded random 64-bit values.

import (
	"math/big"
	"math/rand"
	"testing"

	vc "github.com/gordian-engine/gordian/internal/verifcommon"
	"github.com/gordian-engine/gordian/tm/tmconsensus"
)

type c18Row struct {
	N   uint64 `json:"n"`
	Maj uint64 `json:"maj"`
	Min uint64 `json:"min"`
}

func c18Characterised(n, maj, min uint64) (bool, bool) {
	N := new(big.Int).SetUint64(n)
	M := new(big.Int).SetUint64(maj)
	m := new(big.Int).SetUint64(min)
	three, two, one := big.NewInt(3), big.NewInt(2), big.NewInt(1)
	twoN := new(big.Int).Mul(two, N)
	majOK := new(big.Int).Mul(three, M).Cmp(twoN) > 0 &&
		new(big.Int).Mul(three, new(big.Int).Sub(M, one)).Cmp(twoN) <= 0
	minOK := new(big.Int).Mul(three, m).Cmp(N) >= 0 &&
		new(big.Int).Mul(three, new(big.Int).Sub(m, one)).Cmp(N) < 0
	return majOK, minOK
}

func TestVerifC18(t *testing.T) {
	out := vc.Open("VERIF_OUT")
	defer out.Close()
	trace := vc.Open("VERIF_TRACE")
	defer trace.Close()

	call := func(n uint64) (maj, min uint64, panicked bool) {
		defer func() {
			if r := recover(); r != nil {
				panicked = true
			}
		}()
		return tmconsensus.ByzantineMajority(n), tmconsensus.ByzantineMinority(n), false
	}

	// spec -> code
	rows := vc.ReadNDJSON[c18Row]("VERIF_IN")
	nTable := 0
	for _, r := range rows {
		maj, min, p := call(r.N)
		nTable++
		if p || maj != r.Maj || min != r.Min {
			out.Emit(vc.M{"kind": "mismatch", "src": "tlc-table", "n": r.N, "want_maj": r.Maj, "want_min": r.Min,
				"got_maj": maj, "got_min": min, "panicked": p})
		}
	}

	// boundary + prefix + random, against the proved characterisation
	nChar := 0
	distinct := make(map[uint64]struct{})
	checkChar := func(n uint64, src string) {
		if n == 0 {
			return
		}
		distinct[n] = struct{}{}
		maj, min, p := call(n)
		nChar++
		majOK, minOK := false, false
		if !p {
			majOK, minOK = c18Characterised(n, maj, min)
		}
		if p || !majOK || !minOK {
			out.Emit(vc.M{"kind": "mismatch", "src": src, "n": n, "got_maj": maj, "got_min": min,
				"panicked": p, "maj_ok": majOK, "min_ok": minOK})
		}
	}
	prefix := uint64(vc.EnvInt("VERIF_PREFIX", 1<<20))
	for n := uint64(1); n <= prefix; n++ {
		checkChar(n, "prefix")
	}
	for sh := uint(1); sh < 64; sh++ {
		c := uint64(1) << sh
		for d := uint64(0); d <= 64; d++ {
			checkChar(c-d, "pow2")
			checkChar(c+d, "pow2")
		}
	}
	for d := uint64(0); d <= 4096; d++ {
		checkChar(^uint64(0)-d, "max")
		checkChar((^uint64(0))/3*2-2048+d, "two-thirds-max")
		checkChar((^uint64(0))/3-2048+d, "third-max")
		checkChar((^uint64(0))/2-2048+d, "half-max")
	}
	rng := rand.New(rand.NewSource(int64(vc.EnvInt("VERIF_SEED", 1))))
	nr := vc.EnvInt("VERIF_RANDOM", 200000)
	for i := 0; i < nr; i++ {
		checkChar(rng.Uint64(), "random64")
		checkChar(rng.Uint64()>>uint(rng.Intn(64)), "random-width")
	}

	// n = 0 panics as documented
	if _, _, p := call(0); !p {
		out.Emit(vc.M{"kind": "mismatch", "src": "zero", "n": 0, "panicked": false})
	}

	// code -> spec: triples within TLC's integer range
	nt := vc.EnvInt("VERIF_TRACE_N", 2000)
	for i := 0; i < nt; i++ {
		var n uint64
		switch {
		case i < 200:
			n = uint64(i + 1)
		case i < 400:
			n = uint64(715827882) - uint64(i-200) // 3*maj must stay below 2^31
		default:
			n = uint64(rng.Int63n(715827882)) + 1
		}
		maj, min, p := call(n)
		if p {
			continue
		}
		trace.Emit(vc.M{"n": n, "maj": maj, "min": min})
	}
	out.Emit(vc.M{"kind": "summary", "table_rows": nTable, "characterised": nChar, "distinct": len(distinct), "trace_rows": trace.Count()})
}
