package tmconsensus_test

// C09 (feedback mapper clause) conformance harness, overlaid into /repo/tm/tmconsensus by
// /verif/checks/c09_config.py.  A stub FineGrainedConsensusHandler returns every value of
// HandleProposedHeaderResult / HandleVoteProofsResult -- the constants are read from the real
// handler.go with go/parser so that a newly added constant is noticed even if the generated
// String() method is stale -- plus the out-of-range values 0 and N+1, through both shipped mappers
// and all three Handle* methods, each call under recover().  Every observed row is written to
// $VERIF_OUT; spec/MapperMC.tla re-reads the rows (code -> spec) and its table is compared with
// them (spec -> code).

import (
	"context"
	"fmt"
	"go/ast"
	"go/parser"
	"go/token"
	"strings"
	"testing"

	"github.com/gordian-engine/gordian/gexchange"
	vc "github.com/gordian-engine/gordian/internal/verifcommon"
	"github.com/gordian-engine/gordian/tm/tmconsensus"
)

type c09StubHandler struct {
	ph   tmconsensus.HandleProposedHeaderResult
	vote tmconsensus.HandleVoteProofsResult
}

func (h c09StubHandler) HandleProposedHeader(context.Context, tmconsensus.ProposedHeader) tmconsensus.HandleProposedHeaderResult {
	return h.ph
}
func (h c09StubHandler) HandlePrevoteProofs(context.Context, tmconsensus.PrevoteSparseProof) tmconsensus.HandleVoteProofsResult {
	return h.vote
}
func (h c09StubHandler) HandlePrecommitProofs(context.Context, tmconsensus.PrecommitSparseProof) tmconsensus.HandleVoteProofsResult {
	return h.vote
}

// c09EnumNames returns the names of the iota constants of the given type declared in handler.go,
// in declaration order (index 0 is the blank identifier for value 0).
func c09EnumNames(file, typ string) ([]string, error) {
	fset := token.NewFileSet()
	f, err := parser.ParseFile(fset, file, nil, 0)
	if err != nil {
		return nil, err
	}
	for _, d := range f.Decls {
		gd, ok := d.(*ast.GenDecl)
		if !ok || gd.Tok != token.CONST || len(gd.Specs) == 0 {
			continue
		}
		first, ok := gd.Specs[0].(*ast.ValueSpec)
		if !ok || first.Type == nil {
			continue
		}
		if id, ok := first.Type.(*ast.Ident); !ok || id.Name != typ {
			continue
		}
		var names []string
		for _, sp := range gd.Specs {
			vs := sp.(*ast.ValueSpec)
			if vs.Type != nil {
				if id, ok := vs.Type.(*ast.Ident); !ok || id.Name != typ {
					return nil, fmt.Errorf("const block of %s changes type", typ)
				}
			}
			if len(vs.Values) > 0 && vs != first {
				return nil, fmt.Errorf("const block of %s has an explicit value at %s: enumerate by hand", typ, vs.Names[0].Name)
			}
			for _, n := range vs.Names {
				names = append(names, n.Name)
			}
		}
		return names, nil
	}
	return nil, fmt.Errorf("no const block of type %s in %s", typ, file)
}

func c09Feedback(f func() gexchange.Feedback) (fb string, panicText string) {
	defer func() {
		if r := recover(); r != nil {
			fb = "PANIC"
			panicText = fmt.Sprint(r)
		}
	}()
	return f().String(), ""
}

func TestVerifC09Mapper(t *testing.T) {
	out := vc.Open("VERIF_OUT")
	defer out.Close()

	phNames, err := c09EnumNames("handler.go", "HandleProposedHeaderResult")
	if err != nil {
		out.Emit(vc.M{"kind": "harness-error", "what": err.Error()})
		t.Fatal(err)
	}
	voteNames, err := c09EnumNames("handler.go", "HandleVoteProofsResult")
	if err != nil {
		out.Emit(vc.M{"kind": "harness-error", "what": err.Error()})
		t.Fatal(err)
	}
	if phNames[0] != "_" || voteNames[0] != "_" {
		out.Emit(vc.M{"kind": "harness-error", "what": "enum does not start with the blank zero value"})
		t.Fatal("unexpected enum shape")
	}

	ctx := context.Background()
	type mapper struct {
		name string
		mk   func(h tmconsensus.FineGrainedConsensusHandler) tmconsensus.ConsensusHandler
	}
	mappers := []mapper{
		{"AcceptAllValid", func(h tmconsensus.FineGrainedConsensusHandler) tmconsensus.ConsensusHandler {
			return tmconsensus.AcceptAllValidFeedbackMapper{Handler: h}
		}},
		{"DropDuplicate", func(h tmconsensus.FineGrainedConsensusHandler) tmconsensus.ConsensusHandler {
			return tmconsensus.DropDuplicateFeedbackMapper{Handler: h}
		}},
	}
	rows, stale := 0, 0
	emit := func(m, method string, v int, n int, declared, str string, fb, ptxt string) {
		inRange := v >= 1 && v <= n
		name := str
		if inRange {
			name = declared
			if declared != str {
				stale++
			}
		}
		out.Emit(vc.M{"kind": "row", "mapper": m, "method": method, "value": v, "name": name, "string": str,
			"fb": fb, "inrange": inRange, "panic": ptxt})
		rows++
	}
	for _, m := range mappers {
		nPH := len(phNames) - 1
		for v := 0; v <= nPH+1; v++ {
			r := tmconsensus.HandleProposedHeaderResult(v)
			h := m.mk(c09StubHandler{ph: r})
			fb, ptxt := c09Feedback(func() gexchange.Feedback { return h.HandleProposedHeader(ctx, tmconsensus.ProposedHeader{}) })
			decl := ""
			if v >= 1 && v <= nPH {
				decl = strings.TrimPrefix(phNames[v], "HandleProposedHeader")
			}
			emit(m.name, "HandleProposedHeader", v, nPH, decl, r.String(), fb, ptxt)
		}
		nV := len(voteNames) - 1
		for v := 0; v <= nV+1; v++ {
			r := tmconsensus.HandleVoteProofsResult(v)
			h := m.mk(c09StubHandler{vote: r})
			decl := ""
			if v >= 1 && v <= nV {
				decl = strings.TrimPrefix(voteNames[v], "HandleVoteProofs")
			}
			fb, ptxt := c09Feedback(func() gexchange.Feedback { return h.HandlePrevoteProofs(ctx, tmconsensus.PrevoteSparseProof{}) })
			emit(m.name, "HandlePrevoteProofs", v, nV, decl, r.String(), fb, ptxt)
			fb, ptxt = c09Feedback(func() gexchange.Feedback { return h.HandlePrecommitProofs(ctx, tmconsensus.PrecommitSparseProof{}) })
			emit(m.name, "HandlePrecommitProofs", v, nV, decl, r.String(), fb, ptxt)
		}
	}
	out.Emit(vc.M{"kind": "summary", "rows": rows, "ph_values": len(phNames) - 1, "vote_values": len(voteNames) - 1,
		"stringer_stale": stale})
}
