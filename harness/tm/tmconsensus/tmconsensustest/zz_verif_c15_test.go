package tmconsensustest_test

// C15 conformance harness (overlaid into /repo/tm/tmconsensus/tmconsensustest by /verif/bin/check).
//
// spec -> code: every case exported by TLC from HashSign.tla (single-field-difference pairs of
// abstract headers, permutation cases, sign targets / proposal contents) is instantiated as concrete
// tmconsensus values under several seeded valuations of the abstract constants, pushed through the
// REAL SimpleHashScheme / SimpleSignatureScheme, and the property predicates are evaluated on the
// real hashes / sign bytes:
//
//	HashDiffers                    two headers differing in any field but Hash have different hashes
//	HashIgnoresHashFieldAndOrder   Hash field, map insertion / iteration order, signature order: same hash
//	SignBytesDistinct              distinct (kind,h,r,hash|nil) targets / proposal contents: distinct bytes
//
// code -> spec: (abstract header, class-of-real-hash) and (sign item, class-of-real-bytes) are written
// to $VERIF_TRACE; HashSignTrace.tla checks that the kernel of the real functions is the kernel of the
// specification's canonical serialization.

import (
	"bytes"
	"encoding/binary"
	"encoding/hex"
	"encoding/json"
	"fmt"
	"math/rand"
	"sort"
	"strconv"
	"strings"
	"testing"

	"github.com/gordian-engine/gordian/gcrypto"
	vc "github.com/gordian-engine/gordian/internal/verifcommon"
	"github.com/gordian-engine/gordian/tm/tmconsensus"
	"github.com/gordian-engine/gordian/tm/tmconsensus/tmconsensustest"
)

type c15Sig struct {
	K string `json:"k"`
	S string `json:"s"`
}
type c15Entry struct {
	Key  string   `json:"key"`
	Sigs []c15Sig `json:"sigs"`
}
type c15Hdr struct {
	Hash             string     `json:"Hash"`
	PrevBlockHash    string     `json:"PrevBlockHash"`
	Height           string     `json:"Height"`
	PcpRound         string     `json:"pcpRound"`
	PcpPKH           string     `json:"pcpPKH"`
	VsPKH            string     `json:"vsPKH"`
	VsVPH            string     `json:"vsVPH"`
	NvsPKH           string     `json:"nvsPKH"`
	NvsVPH           string     `json:"nvsVPH"`
	DataID           string     `json:"DataID"`
	PrevAppStateHash string     `json:"PrevAppStateHash"`
	AnnUser          string     `json:"annUser"`
	AnnDriver        string     `json:"annDriver"`
	Pcp              []c15Entry `json:"pcp"`
}
type c15Item struct {
	T         string `json:"t"`
	Height    string `json:"height"`
	Round     string `json:"round"`
	Hash      string `json:"hash"`
	Prev      string `json:"prev"`
	App       string `json:"app"`
	Data      string `json:"data"`
	AnnUser   string `json:"annUser"`
	AnnDriver string `json:"annDriver"`
}
type c15Case struct {
	Op        string     `json:"op"`
	Base      int        `json:"base"`
	Field     string     `json:"field"`
	Kind      string     `json:"kind"`
	H1        *c15Hdr    `json:"h1"`
	H2        *c15Hdr    `json:"h2"`
	MustEqual bool       `json:"must_equal"`
	ExpDesign bool       `json:"exp_equal_design"`
	ExpAsIs   bool       `json:"exp_equal_asis"`
	Orders    [][]string `json:"orders"`
	Order     []string   `json:"order"`
	Item      *c15Item   `json:"item"`
}

// canon sorts the commit proof so that an abstract header has one JSON spelling.
func (h c15Hdr) canon() c15Hdr {
	es := make([]c15Entry, len(h.Pcp))
	for i, e := range h.Pcp {
		ss := append([]c15Sig{}, e.Sigs...)
		sort.Slice(ss, func(a, b int) bool { return ss[a].K+ss[a].S < ss[b].K+ss[b].S })
		es[i] = c15Entry{Key: e.Key, Sigs: ss}
	}
	sort.Slice(es, func(a, b int) bool { return es[a].Key < es[b].Key })
	h.Pcp = es
	return h
}

func (h c15Hdr) key(withHash bool) string {
	c := h.canon()
	if !withHash {
		c.Hash = ""
	}
	b, _ := json.Marshal(c)
	return string(b)
}

func (h c15Hdr) scalars() map[string]string {
	return map[string]string{"Hash": h.Hash, "PrevBlockHash": h.PrevBlockHash, "Height": h.Height, "pcpRound": h.PcpRound,
		"pcpPKH": h.PcpPKH, "vsPKH": h.VsPKH, "vsVPH": h.VsVPH, "nvsPKH": h.NvsPKH, "nvsVPH": h.NvsVPH, "DataID": h.DataID,
		"PrevAppStateHash": h.PrevAppStateHash, "annUser": h.AnnUser, "annDriver": h.AnnDriver}
}

// c15DiffClass names the fields in which two abstract headers differ (Hash excluded); the commit
// proof is split into "pcp.keys" (block-key sets differ) and "pcp.sigs" (same keys, signatures differ).
func c15DiffClass(a, b c15Hdr) string {
	var d []string
	sa, sb := a.scalars(), b.scalars()
	for f, v := range sa {
		if f != "Hash" && sb[f] != v {
			d = append(d, f)
		}
	}
	ca, cb := a.canon(), b.canon()
	ka, kb := []string{}, []string{}
	for _, e := range ca.Pcp {
		ka = append(ka, e.Key)
	}
	for _, e := range cb.Pcp {
		kb = append(kb, e.Key)
	}
	if strings.Join(ka, ",") != strings.Join(kb, ",") {
		d = append(d, "pcp.keys")
	} else {
		ja, _ := json.Marshal(ca.Pcp)
		jb, _ := json.Marshal(cb.Pcp)
		if !bytes.Equal(ja, jb) {
			d = append(d, "pcp.sigs")
		}
	}
	sort.Strings(d)
	return strings.Join(d, "+")
}

// c15Val is one valuation: abstract constant -> concrete value.
type c15Val struct {
	idx     int
	bytes2  map[string][]byte // "a","b"
	ann     map[string][]byte // "nil","empty","x","y"
	height  map[string]uint64
	round   map[string]uint32
	blk     map[string]string // "nil","A","B"
	keyID   map[string][]byte
	sig     map[string][]byte
	pkh     map[string][]byte // real SimpleHashScheme.PubKeys of two key lists
	vph     map[string][]byte
	vals    map[string][]tmconsensus.Validator // "a|a" -> validators with keys a, powers a
	scheme  tmconsensustest.SimpleHashScheme
	sscheme tmconsensustest.SimpleSignatureScheme
}

func c15RandBytes(rng *rand.Rand, n int) []byte {
	b := make([]byte, n)
	rng.Read(b)
	return b
}

func c15NewValuation(idx int, rng *rand.Rand, pv tmconsensustest.PrivVals) *c15Val {
	v := &c15Val{idx: idx}
	if idx == 0 {
		v.bytes2 = map[string][]byte{"a": []byte("aaaa-value-of-a"), "b": []byte("bbbb-value-of-b")}
		v.ann = map[string][]byte{"nil": nil, "empty": {}, "x": []byte("user"), "y": []byte("driver")}
		v.height = map[string]uint64{"1": 1, "2": 2}
		v.round = map[string]uint32{"0": 0, "1": 1}
		v.blk = map[string]string{"nil": "", "A": string(bytes.Repeat([]byte{0xA1}, 32)), "B": string(bytes.Repeat([]byte{0xB2}, 32))}
	} else {
		la, lb := 1+rng.Intn(40), 1+rng.Intn(40)
		a := c15RandBytes(rng, la)
		b := c15RandBytes(rng, lb)
		switch idx % 3 {
		case 1: // b extends a: exercises field framing
			b = append(append([]byte{}, a...), c15RandBytes(rng, 1+rng.Intn(4))...)
		case 2: // same length, one bit apart
			b = append([]byte{}, a...)
			b[rng.Intn(len(b))] ^= 1 << uint(rng.Intn(8))
		}
		v.bytes2 = map[string][]byte{"a": a, "b": b}
		x := c15RandBytes(rng, 1+rng.Intn(12))
		y := append(append([]byte{}, x...), byte(rng.Intn(256)))
		v.ann = map[string][]byte{"nil": nil, "empty": {}, "x": x, "y": y}
		h1 := rng.Uint64() >> uint(rng.Intn(64))
		h2 := h1 + 1 + uint64(rng.Intn(3))
		if idx%2 == 0 {
			h1, h2 = ^uint64(0), ^uint64(0)-1
		}
		v.height = map[string]uint64{"1": h1, "2": h2}
		r1 := rng.Uint32() >> uint(rng.Intn(32))
		v.round = map[string]uint32{"0": r1, "1": r1 + 1}
		ka := c15RandBytes(rng, 32)
		kb := append([]byte{}, ka...)
		kb[31] ^= 1
		v.blk = map[string]string{"nil": "", "A": string(ka), "B": string(kb)}
	}
	k1, k2 := make([]byte, 2), make([]byte, 2)
	binary.BigEndian.PutUint16(k1, uint16(rng.Intn(4)))
	binary.BigEndian.PutUint16(k2, uint16(4+rng.Intn(4)))
	v.keyID = map[string][]byte{"k1": k1, "k2": k2}
	s1 := c15RandBytes(rng, 64)
	s2 := append([]byte{}, s1...)
	s2[rng.Intn(64)] ^= 0x80
	v.sig = map[string][]byte{"s1": s1, "s2": s2}

	// Two key lists and two power lists of equal length -> four well-formed validator sets whose
	// hashes are computed by the REAL scheme (the header binds validator sets through these hashes).
	off := (idx * 2) % 4
	keys := map[string][]gcrypto.PubKey{
		"a": {pv[off].Val.PubKey, pv[off+1].Val.PubKey},
		"b": {pv[off+1].Val.PubKey, pv[off+2].Val.PubKey},
	}
	pows := map[string][]uint64{"a": {10 + uint64(idx), 5}, "b": {10 + uint64(idx), 6}}
	v.pkh, v.vph, v.vals = map[string][]byte{}, map[string][]byte{}, map[string][]tmconsensus.Validator{}
	for kn, ks := range keys {
		h, err := v.scheme.PubKeys(ks)
		if err != nil {
			panic(err)
		}
		v.pkh[kn] = h
		for pn, ps := range pows {
			vs := make([]tmconsensus.Validator, len(ks))
			for i := range ks {
				vs[i] = tmconsensus.Validator{PubKey: ks[i], Power: ps[i]}
			}
			v.vals[kn+"|"+pn] = vs
		}
	}
	for pn, ps := range pows {
		h, err := v.scheme.VotePowers(ps)
		if err != nil {
			panic(err)
		}
		v.vph[pn] = h
	}
	return v
}

func (v *c15Val) valSet(pkh, vph string) tmconsensus.ValidatorSet {
	vs := v.vals[pkh+"|"+vph]
	return tmconsensus.ValidatorSet{
		Validators: vs, PubKeys: tmconsensus.ValidatorsToPubKeys(vs),
		PubKeyHash: bytes.Clone(v.pkh[pkh]), VotePowerHash: bytes.Clone(v.vph[vph]),
	}
}

// header instantiates an abstract header.  keyOrder (optional) is the insertion order of the block
// keys; sigPerm permutes each signature slice (nil: canonical order).
func (v *c15Val) header(a c15Hdr, keyOrder []string, rng *rand.Rand) tmconsensus.Header {
	h := tmconsensus.Header{
		Hash:             bytes.Clone(v.bytes2[a.Hash]),
		PrevBlockHash:    bytes.Clone(v.bytes2[a.PrevBlockHash]),
		Height:           v.height[a.Height],
		ValidatorSet:     v.valSet(a.VsPKH, a.VsVPH),
		NextValidatorSet: v.valSet(a.NvsPKH, a.NvsVPH),
		DataID:           bytes.Clone(v.bytes2[a.DataID]),
		PrevAppStateHash: bytes.Clone(v.bytes2[a.PrevAppStateHash]),
		Annotations:      tmconsensus.Annotations{User: v.annVal(a.AnnUser), Driver: v.annVal(a.AnnDriver)},
	}
	byKey := map[string]c15Entry{}
	order := []string{}
	for _, e := range a.Pcp {
		byKey[e.Key] = e
		order = append(order, e.Key)
	}
	if keyOrder != nil {
		order = keyOrder
	}
	proofs := make(map[string][]gcrypto.SparseSignature)
	for _, k := range order {
		e := byKey[k]
		sigs := make([]gcrypto.SparseSignature, 0, len(e.Sigs))
		for _, s := range e.Sigs {
			sigs = append(sigs, gcrypto.SparseSignature{KeyID: bytes.Clone(v.keyID[s.K]), Sig: bytes.Clone(v.sig[s.S])})
		}
		if rng != nil {
			rng.Shuffle(len(sigs), func(i, j int) { sigs[i], sigs[j] = sigs[j], sigs[i] })
		}
		proofs[v.blk[k]] = sigs
	}
	h.PrevCommitProof = tmconsensus.CommitProof{Round: v.round[a.PcpRound], PubKeyHash: string(v.bytes2[a.PcpPKH]), Proofs: proofs}
	return h
}

func (v *c15Val) annVal(n string) []byte {
	b := v.ann[n]
	if b == nil {
		return nil
	}
	return append([]byte{}, b...) // keeps empty non-nil
}

func (v *c15Val) signBytes(it c15Item) ([]byte, error) {
	switch it.T {
	case "prevote":
		return tmconsensus.PrevoteSignBytes(tmconsensus.VoteTarget{Height: v.height[it.Height], Round: v.round[it.Round], BlockHash: v.blk[it.Hash]}, v.sscheme)
	case "precommit":
		return tmconsensus.PrecommitSignBytes(tmconsensus.VoteTarget{Height: v.height[it.Height], Round: v.round[it.Round], BlockHash: v.blk[it.Hash]}, v.sscheme)
	case "proposal":
		h := tmconsensus.Header{Height: v.height[it.Height], PrevBlockHash: v.bytes2[it.Prev], PrevAppStateHash: v.bytes2[it.App], DataID: v.bytes2[it.Data]}
		return tmconsensus.ProposalSignBytes(h, v.round[it.Round], tmconsensus.Annotations{User: v.annVal(it.AnnUser), Driver: v.annVal(it.AnnDriver)}, v.sscheme)
	}
	return nil, fmt.Errorf("unknown item kind %q", it.T)
}

func c15ItemDiff(a, b c15Item) string {
	var d []string
	if a.T != b.T {
		ts := []string{a.T, b.T}
		sort.Strings(ts)
		d = append(d, "kind("+ts[0]+"~"+ts[1]+")")
	}
	cmp := func(n, x, y string) {
		if x != y {
			d = append(d, n)
		}
	}
	cmp("height", a.Height, b.Height)
	cmp("round", a.Round, b.Round)
	cmp("hash", a.Hash, b.Hash)
	cmp("prev", a.Prev, b.Prev)
	cmp("app", a.App, b.App)
	cmp("data", a.Data, b.Data)
	cmp("annUser", a.AnnUser, b.AnnUser)
	cmp("annDriver", a.AnnDriver, b.AnnDriver)
	return strings.Join(d, "+")
}

// random abstract header from the full product (beyond the exported radius).
func c15RandHdr(rng *rand.Rand) c15Hdr {
	p := func(xs ...string) string { return xs[rng.Intn(len(xs))] }
	h := c15Hdr{Hash: p("a", "b"), PrevBlockHash: p("a", "b"), Height: p("1", "2"), PcpRound: p("0", "1"), PcpPKH: p("a", "b"),
		VsPKH: p("a", "b"), VsVPH: p("a", "b"), NvsPKH: p("a", "b"), NvsVPH: p("a", "b"), DataID: p("a", "b"),
		PrevAppStateHash: p("a", "b"), AnnUser: p("nil", "empty", "x", "y"), AnnDriver: p("nil", "empty", "x", "y")}
	for _, k := range []string{"nil", "A", "B"} {
		if rng.Intn(3) == 0 {
			continue
		}
		e := c15Entry{Key: k, Sigs: []c15Sig{}}
		for _, kk := range []string{"k1", "k2"} {
			for _, ss := range []string{"s1", "s2"} {
				if rng.Intn(3) == 0 {
					e.Sigs = append(e.Sigs, c15Sig{K: kk, S: ss})
				}
			}
		}
		h.Pcp = append(h.Pcp, e)
	}
	return h
}

// one random single-field edit (scalar or commit-proof entry).
func c15RandEdit(rng *rand.Rand, h c15Hdr) (c15Hdr, string) {
	g := h.canon()
	other := func(cur string, dom ...string) string {
		for {
			c := dom[rng.Intn(len(dom))]
			if c != cur {
				return c
			}
		}
	}
	switch f := rng.Intn(16); f {
	case 0:
		g.PrevBlockHash = other(g.PrevBlockHash, "a", "b")
	case 1:
		g.Height = other(g.Height, "1", "2")
	case 2:
		g.PcpRound = other(g.PcpRound, "0", "1")
	case 3:
		g.PcpPKH = other(g.PcpPKH, "a", "b")
	case 4:
		g.VsPKH = other(g.VsPKH, "a", "b")
	case 5:
		g.VsVPH = other(g.VsVPH, "a", "b")
	case 6:
		g.NvsPKH = other(g.NvsPKH, "a", "b")
	case 7:
		g.NvsVPH = other(g.NvsVPH, "a", "b")
	case 8:
		g.DataID = other(g.DataID, "a", "b")
	case 9:
		g.PrevAppStateHash = other(g.PrevAppStateHash, "a", "b")
	case 10:
		g.AnnUser = other(g.AnnUser, "nil", "empty", "x", "y")
	case 11:
		g.AnnDriver = other(g.AnnDriver, "nil", "empty", "x", "y")
	case 12:
		g.Hash = other(g.Hash, "a", "b")
	default: // commit proof entry edit
		if len(g.Pcp) == 0 || rng.Intn(4) == 0 {
			have := map[string]bool{}
			for _, e := range g.Pcp {
				have[e.Key] = true
			}
			for _, k := range []string{"nil", "A", "B"} {
				if !have[k] {
					g.Pcp = append(g.Pcp, c15Entry{Key: k, Sigs: []c15Sig{}})
					return g, "pcp"
				}
			}
			g.Pcp = g.Pcp[1:]
			return g, "pcp"
		}
		i := rng.Intn(len(g.Pcp))
		e := &g.Pcp[i]
		if len(e.Sigs) > 0 && rng.Intn(2) == 0 {
			j := rng.Intn(len(e.Sigs))
			switch rng.Intn(3) {
			case 0:
				e.Sigs = append(e.Sigs[:j:j], e.Sigs[j+1:]...)
			case 1:
				e.Sigs[j].S = other(e.Sigs[j].S, "s1", "s2")
			default:
				e.Sigs[j].K = other(e.Sigs[j].K, "k1", "k2")
			}
			// dedupe
			seen := map[c15Sig]bool{}
			out := []c15Sig{}
			for _, s := range e.Sigs {
				if !seen[s] {
					seen[s] = true
					out = append(out, s)
				}
			}
			e.Sigs = out
		} else {
			have := map[c15Sig]bool{}
			for _, s := range e.Sigs {
				have[s] = true
			}
			for _, kk := range []string{"k1", "k2"} {
				for _, ss := range []string{"s1", "s2"} {
					if !have[c15Sig{kk, ss}] {
						e.Sigs = append(e.Sigs, c15Sig{kk, ss})
						return g, "pcp"
					}
				}
			}
			e.Sigs = e.Sigs[1:]
		}
		return g, "pcp"
	}
	return g, "scalar"
}

func TestVerifC15(t *testing.T) {
	out := vc.Open("VERIF_OUT")
	defer out.Close()
	trace := vc.Open("VERIF_TRACE")
	defer trace.Close()
	seed := int64(vc.EnvInt("VERIF_SEED", 1))
	rng := rand.New(rand.NewSource(seed))
	nVal := vc.EnvInt("VERIF_VALUATIONS", 3)
	nRandom := vc.EnvInt("VERIF_RANDOM", 20000)
	nTrace := vc.EnvInt("VERIF_TRACE_N", 300)
	permReps := vc.EnvInt("VERIF_PERM_REPS", 50)

	cases := vc.ReadNDJSON[c15Case]("VERIF_IN")
	pv := tmconsensustest.DeterministicValidatorsEd25519(6)
	vals := make([]*c15Val, nVal)
	for i := range vals {
		vals[i] = c15NewValuation(i, rng, pv)
	}

	counts := map[string]int{}
	distinct := map[string]struct{}{} // distinct non-trivial (abstract case, valuation) evaluated
	nViol := 0
	perClass := map[string]int{} // at most 3 records per fingerprint, so one class cannot hide another
	violation := func(pred, class, what string, c any) {
		nViol++
		perClass[pred+"|"+class]++
		if perClass[pred+"|"+class] > 3 {
			return
		}
		out.Emit(vc.M{"kind": "violation", "predicate": pred, "site": "SimpleHashScheme.Block", "class": class, "what": what, "case": c})
	}
	violationSig := func(class, what string, c any) {
		nViol++
		perClass["sign|"+class]++
		if perClass["sign|"+class] > 3 {
			return
		}
		out.Emit(vc.M{"kind": "violation", "predicate": "SignBytesDistinct", "site": "SimpleSignatureScheme", "class": class, "what": what, "case": c})
	}

	// per valuation: real hash -> abstract header (all-pairs injectivity on everything seen)
	seen := make([]map[string]c15Hdr, nVal)
	for i := range seen {
		seen[i] = map[string]c15Hdr{}
	}
	hashOf := func(v *c15Val, a c15Hdr, src string, keyOrder []string, r *rand.Rand) []byte {
		var hb []byte
		func() {
			defer func() {
				if rec := recover(); rec != nil {
					out.Emit(vc.M{"kind": "panic", "site": "SimpleHashScheme.Block", "what": fmt.Sprint(rec), "case": a})
				}
			}()
			h := v.header(a, keyOrder, r)
			var err error
			hb, err = v.scheme.Block(h)
			if err != nil {
				out.Emit(vc.M{"kind": "mismatch", "what": "Block returned error: " + err.Error(), "case": a})
				hb = nil
			}
		}()
		if hb == nil {
			return nil
		}
		k := hex.EncodeToString(hb)
		if prev, ok := seen[v.idx][k]; ok {
			if cls := c15DiffClass(prev, a); cls != "" {
				violation("HashDiffers", cls, fmt.Sprintf("two headers differing in {%s} (and nothing else but possibly Hash) have the same block hash %s (source %s, valuation %d)", cls, k[:16], src, v.idx),
					vc.M{"h1": prev, "h2": a, "valuation": v.idx, "src": src})
			}
		} else {
			seen[v.idx][k] = a
		}
		return hb
	}

	var serOrder []string
	var signItems []c15Item
	nPairs, nPerm := 0, 0
	mismatchAsIs, mismatchDesign := 0, 0
	for _, c := range cases {
		switch c.Op {
		case "serorder":
			serOrder = c.Order
		case "sign":
			signItems = append(signItems, *c.Item)
		case "pair":
			nPairs++
			for _, v := range vals {
				h1 := hashOf(v, *c.H1, "tlc-pair", nil, nil)
				h2 := hashOf(v, *c.H2, "tlc-pair", nil, nil)
				if h1 == nil || h2 == nil {
					continue
				}
				counts["pair_evals"]++
				distinct[fmt.Sprintf("pair|%d|%s|%s", v.idx, c.H1.key(true), c.H2.key(true))] = struct{}{}
				eq := bytes.Equal(h1, h2)
				if c.MustEqual && !eq {
					violation("HashIgnoresHashFieldAndOrder", "Hash", "changing only the stored Hash field changed the block hash",
						vc.M{"h1": c.H1, "h2": c.H2, "valuation": v.idx})
				}
				if !c.MustEqual && eq {
					cls := c15DiffClass(*c.H1, *c.H2)
					violation("HashDiffers", cls, fmt.Sprintf("single-field edit %s/%s leaves the block hash unchanged", c.Field, c.Kind),
						vc.M{"h1": c.H1, "h2": c.H2, "valuation": v.idx, "field": c.Field, "edit": c.Kind})
				}
				if eq != c.ExpAsIs {
					mismatchAsIs++
				}
				if eq != c.ExpDesign {
					mismatchDesign++
				}
			}
		case "perm":
			nPerm++
			for _, v := range vals {
				ref := hashOf(v, *c.H1, "tlc-perm", nil, nil)
				if ref == nil {
					continue
				}
				distinct[fmt.Sprintf("perm|%d|%s", v.idx, c.H1.key(true))] = struct{}{}
				for _, ord := range c.Orders {
					for rep := 0; rep < permReps; rep++ {
						counts["perm_evals"]++
						hb := hashOf(v, *c.H1, "tlc-perm", ord, rng)
						if hb != nil && !bytes.Equal(hb, ref) {
							violation("HashIgnoresHashFieldAndOrder", "order", "block hash depends on map insertion/iteration order or signature order",
								vc.M{"h1": c.H1, "order": ord, "valuation": v.idx})
							break
						}
					}
				}
			}
		}
	}

	// seeded random pairs over the full product (beyond the exported Hamming ball)
	for i := 0; i < nRandom; i++ {
		v := vals[rng.Intn(len(vals))]
		a := c15RandHdr(rng)
		var b c15Hdr
		if i%4 == 3 {
			b = c15RandHdr(rng)
		} else {
			b, _ = c15RandEdit(rng, a)
		}
		ha := hashOf(v, a, "random", nil, rng)
		hb := hashOf(v, b, "random", nil, rng)
		if ha == nil || hb == nil {
			continue
		}
		counts["random_evals"]++
		cls := c15DiffClass(a, b)
		distinct[fmt.Sprintf("rand|%d|%s|%s", v.idx, a.key(true), b.key(true))] = struct{}{}
		eq := bytes.Equal(ha, hb)
		if cls == "" && !eq {
			violation("HashIgnoresHashFieldAndOrder", "Hash", "headers equal up to the stored Hash field / ordering have different hashes",
				vc.M{"h1": a, "h2": b, "valuation": v.idx})
		}
		if cls != "" && eq {
			violation("HashDiffers", cls, "random pair: headers differing in {"+cls+"} have the same block hash", vc.M{"h1": a, "h2": b, "valuation": v.idx})
		}
	}

	// byte-level framing cases derived from the spec's serialization order: move the tail of one
	// byte field to the head of the next one.
	byteField := map[string]func(h *tmconsensus.Header) *[]byte{
		"PrevBlockHash":    func(h *tmconsensus.Header) *[]byte { return &h.PrevBlockHash },
		"vsPKH":            func(h *tmconsensus.Header) *[]byte { return &h.ValidatorSet.PubKeyHash },
		"vsVPH":            func(h *tmconsensus.Header) *[]byte { return &h.ValidatorSet.VotePowerHash },
		"nvsPKH":           func(h *tmconsensus.Header) *[]byte { return &h.NextValidatorSet.PubKeyHash },
		"nvsVPH":           func(h *tmconsensus.Header) *[]byte { return &h.NextValidatorSet.VotePowerHash },
		"DataID":           func(h *tmconsensus.Header) *[]byte { return &h.DataID },
		"PrevAppStateHash": func(h *tmconsensus.Header) *[]byte { return &h.PrevAppStateHash },
		"annUser":          func(h *tmconsensus.Header) *[]byte { return &h.Annotations.User },
		"annDriver":        func(h *tmconsensus.Header) *[]byte { return &h.Annotations.Driver },
	}
	baseAbs := c15Hdr{Hash: "a", PrevBlockHash: "a", Height: "1", PcpRound: "0", PcpPKH: "a", VsPKH: "a", VsVPH: "a", NvsPKH: "a", NvsVPH: "a",
		DataID: "a", PrevAppStateHash: "a", AnnUser: "x", AnnDriver: "y"}
	for i := 0; i+1 < len(serOrder); i++ {
		fx, fy := byteField[serOrder[i]], byteField[serOrder[i+1]]
		if fx == nil || fy == nil {
			continue
		}
		for _, v := range vals {
			for rep := 0; rep < 8; rep++ {
				p, q, r := c15RandBytes(rng, 1+rng.Intn(6)), c15RandBytes(rng, 1+rng.Intn(6)), c15RandBytes(rng, 1+rng.Intn(6))
				h1 := v.header(baseAbs, nil, nil)
				h2 := v.header(baseAbs, nil, nil)
				*fx(&h1), *fy(&h1) = append(append([]byte{}, p...), q...), r
				*fx(&h2), *fy(&h2) = p, append(append([]byte{}, q...), r...)
				b1, e1 := v.scheme.Block(h1)
				b2, e2 := v.scheme.Block(h2)
				if e1 != nil || e2 != nil {
					continue
				}
				counts["framing_evals"]++
				distinct[fmt.Sprintf("frame|%s|%x|%x|%x", serOrder[i], p, q, r)] = struct{}{}
				if bytes.Equal(b1, b2) {
					violation("HashDiffers", "framing:"+serOrder[i]+"|"+serOrder[i+1], "moving bytes across the boundary of two adjacent fields leaves the block hash unchanged",
						vc.M{"x": serOrder[i], "y": serOrder[i+1], "p": hex.EncodeToString(p), "q": hex.EncodeToString(q), "r": hex.EncodeToString(r)})
				}
			}
		}
	}

	// sign bytes: all pairs of distinct items, per valuation (map from real bytes to item)
	nSign := 0
	signClass := make([]map[string]int, nVal)
	for _, v := range vals {
		byBytes := map[string]c15Item{}
		signClass[v.idx] = map[string]int{}
		for _, it := range signItems {
			var sb []byte
			var err error
			func() {
				defer func() {
					if rec := recover(); rec != nil {
						err = fmt.Errorf("panic: %v", rec)
						out.Emit(vc.M{"kind": "panic", "site": "SimpleSignatureScheme", "what": fmt.Sprint(rec), "case": it})
					}
				}()
				sb, err = v.signBytes(it)
			}()
			if err != nil {
				continue
			}
			// determinism
			sb2, _ := v.signBytes(it)
			if !bytes.Equal(sb, sb2) {
				violationSig("nondeterministic", "sign bytes differ between two calls", it)
			}
			nSign++
			distinct[fmt.Sprintf("sign|%d|%+v", v.idx, it)] = struct{}{}
			if prev, ok := byBytes[string(sb)]; ok {
				violationSig(c15ItemDiff(prev, it), fmt.Sprintf("two distinct sign targets produce identical sign bytes %q", string(sb)), vc.M{"a": prev, "b": it, "valuation": v.idx})
			} else {
				byBytes[string(sb)] = it
				signClass[v.idx][string(sb)] = len(signClass[v.idx])
			}
			if v.idx == 0 {
				trace.Emit(vc.M{"op": "sign", "item": it, "cls": signClass[0][string(sb)]})
			}
		}
		counts["sign_pairs"] += len(signItems) * (len(signItems) - 1) / 2
	}

	// code -> spec trace: abstract headers with the class of their real hash (valuation 0)
	{
		v := vals[0]
		cls := map[string]int{}
		emitted := map[string]bool{}
		emit := func(a c15Hdr) {
			k := a.key(true)
			if emitted[k] || len(emitted) >= nTrace {
				return
			}
			h := v.header(a, nil, rng)
			hb, err := v.scheme.Block(h)
			if err != nil {
				return
			}
			hk := string(hb)
			if _, ok := cls[hk]; !ok {
				cls[hk] = len(cls)
			}
			emitted[k] = true
			trace.Emit(vc.M{"op": "hash", "h": a.canon(), "cls": cls[hk]})
		}
		// half from exported pairs (stride), half random with local edits so that classes repeat
		stride := 1
		if nTrace >= 4 && nPairs > nTrace/2 {
			stride = nPairs / (nTrace / 4)
		}
		i := 0
		for _, c := range cases {
			if c.Op != "pair" {
				continue
			}
			if i%stride == 0 && len(emitted) < nTrace/2 {
				emit(*c.H1)
				emit(*c.H2)
			}
			i++
		}
		for len(emitted) < nTrace {
			a := c15RandHdr(rng)
			emit(a)
			b, _ := c15RandEdit(rng, a)
			emit(b)
		}
	}

	out.Emit(vc.M{"kind": "summary", "cases": len(cases), "pairs": nPairs, "perms": nPerm, "sign_items": len(signItems),
		"valuations": nVal, "pair_evals": counts["pair_evals"], "perm_evals": counts["perm_evals"], "random_evals": counts["random_evals"],
		"framing_evals": counts["framing_evals"], "sign_evals": nSign, "sign_pairs": counts["sign_pairs"],
		"distinct": len(distinct), "violations": nViol, "mismatch_asis": mismatchAsIs, "mismatch_design": mismatchDesign,
		"trace_rows": trace.Count(), "seed": strconv.FormatInt(seed, 10)})
}
