package tmjson_test

// C14 conformance harness (overlaid into /repo/tm/tmcodec/tmjson by /verif/bin/check).
//
// spec -> code: every case exported by TLC from Codec.tla is instantiated on the REAL
// tmjson.MarshalCodec (real ed25519 keys through a real gcrypto.Registry):
//
//	op "shape":   the abstract message shape becomes a concrete value, is marshalled with the method
//	              of its variant and unmarshalled again.  RoundTripEq (consensus-relevant fields equal,
//	              block hash / proposal sign bytes under the shipped schemes equal), VariantPreserved
//	              (consensus message decodes to the variant it was encoded from) and DecodeTotal
//	              (every one of the six Unmarshal methods on these bytes: error or value, no panic).
//	op "corrupt": the structural corruption operator is applied to the JSON tree of the real encoding;
//	              all six Unmarshal methods are called under recover.  A panic violates DecodeTotal.
//	              The real outcome (value / error / panic, decoded variant) is compared with the
//	              specification's prediction.
//
// On top of the exported cases: seeded byte-level mutations (flip / delete / insert / truncate /
// splice / base64-string replacement) of the valid encodings, and gcrypto.Registry.Unmarshal /
// Decode / NewEd25519PubKey called directly on every prefix of a valid key encoding and on seeded
// byte strings.
//
// code -> spec: seeded random shapes over the FULL product (beyond the exported Hamming radius) with a
// random corruption are run on the real codec and the observed outcomes are written to $VERIF_TRACE;
// CodecTrace.tla recomputes each with the specification's Encode / Apply / Decode.

import (
	"bytes"
	"encoding/base64"
	"encoding/json"
	"fmt"
	"math"
	"math/rand"
	"os"
	"regexp"
	"runtime"
	"sort"
	"strconv"
	"strings"
	"testing"

	"github.com/gordian-engine/gordian/gcrypto"
	vc "github.com/gordian-engine/gordian/internal/verifcommon"
	"github.com/gordian-engine/gordian/tm/tmcodec"
	"github.com/gordian-engine/gordian/tm/tmcodec/tmjson"
	"github.com/gordian-engine/gordian/tm/tmconsensus"
	"github.com/gordian-engine/gordian/tm/tmconsensus/tmconsensustest"
)

type c14MapEntry struct {
	Key string `json:"key"`
	N   string `json:"n"`
}
type c14Shape struct {
	Variant   string        `json:"variant"`
	HHash     string        `json:"hHash"`
	HPrev     string        `json:"hPrev"`
	HData     string        `json:"hData"`
	HApp      string        `json:"hApp"`
	HUser     string        `json:"hUser"`
	HDriver   string        `json:"hDriver"`
	HHeight   string        `json:"hHeight"`
	Nv        string        `json:"nv"`
	Nnv       string        `json:"nnv"`
	VsPKH     string        `json:"vsPKH"`
	VsVPH     string        `json:"vsVPH"`
	NvsPKH    string        `json:"nvsPKH"`
	NvsVPH    string        `json:"nvsVPH"`
	PcpRound  string        `json:"pcpRound"`
	PcpPKH    string        `json:"pcpPKH"`
	PcpMap    []c14MapEntry `json:"pcpMap"`
	PhRound   string        `json:"phRound"`
	Ppk       string        `json:"ppk"`
	Sig       string        `json:"sig"`
	PaUser    string        `json:"paUser"`
	PaDriver  string        `json:"paDriver"`
	PrfHeight string        `json:"prfHeight"`
	PrfRound  string        `json:"prfRound"`
	PrfPKH    string        `json:"prfPKH"`
	PrfMap    []c14MapEntry `json:"prfMap"`
}
type c14Corr struct {
	Op   string   `json:"op"`
	Path []string `json:"path"`
	Arg  string   `json:"arg"`
}
type c14Case struct {
	Op        string            `json:"op"`
	Base      int               `json:"base"`
	Shape     c14Shape          `json:"shape"`
	Corr      c14Corr           `json:"corr"`
	ExpAsIs   map[string]string `json:"exp_asis"`
	ExpDesign map[string]string `json:"exp_design"`
	Variant   string            `json:"variant"`
}

var c14Methods = []string{"Header", "ProposedHeader", "CommittedHeader", "PrevoteProof", "PrecommitProof", "ConsensusMessage"}

func c14Inner(v string) string { return strings.TrimPrefix(v, "CM.") }
func c14IsCM(v string) bool    { return strings.HasPrefix(v, "CM.") }
func c14MethodOf(v string) string {
	if c14IsCM(v) {
		return "ConsensusMessage"
	}
	return v
}

// ---------------------------------------------------------------- concrete values

type c14Env struct {
	rng    *rand.Rand
	reg    *gcrypto.Registry
	codec  tmjson.MarshalCodec
	pv     tmconsensustest.PrivVals
	hs     tmconsensustest.SimpleHashScheme
	ss     tmconsensustest.SimpleSignatureScheme
	blk    map[string]string // block keys of this valuation
	keyEnc []byte            // a valid registry encoding (for pk_* operators)
}

func c14NewEnv(seed int64) *c14Env {
	reg := new(gcrypto.Registry)
	gcrypto.RegisterEd25519(reg)
	e := &c14Env{rng: rand.New(rand.NewSource(seed)), reg: reg, codec: tmjson.MarshalCodec{CryptoRegistry: reg},
		pv: tmconsensustest.DeterministicValidatorsEd25519(6)}
	e.newValuation()
	e.keyEnc = reg.Marshal(e.pv[0].Val.PubKey)
	return e
}

func (e *c14Env) newValuation() {
	e.blk = map[string]string{"nilblk": "", "A": string(e.rbytes(32)), "B": string(e.rbytes(32))}
}

func (e *c14Env) rbytes(n int) []byte {
	b := make([]byte, n)
	e.rng.Read(b)
	return b
}

func (e *c14Env) pres(p string, n int) []byte {
	switch p {
	case "nil":
		return nil
	case "empty":
		return []byte{}
	}
	return e.rbytes(1 + e.rng.Intn(n))
}

func (e *c14Env) num64(n string) uint64 {
	switch n {
	case "0":
		return 0
	case "max":
		return math.MaxUint64
	}
	return 1 + uint64(e.rng.Int63n(1<<40))
}

func (e *c14Env) num32(n string) uint32 {
	switch n {
	case "0":
		return 0
	case "max":
		return math.MaxUint32
	}
	return 1 + uint32(e.rng.Intn(1<<20))
}

func c14Cnt(n string) int { i, _ := strconv.Atoi(n); return i }

func (e *c14Env) valSet(n, pkh, vph string, off int) tmconsensus.ValidatorSet {
	k := c14Cnt(n)
	vals := make([]tmconsensus.Validator, k)
	for i := 0; i < k; i++ {
		vals[i] = tmconsensus.Validator{PubKey: e.pv[off+i].Val.PubKey, Power: 1 + uint64(e.rng.Int63n(1<<50))}
	}
	vs := tmconsensus.ValidatorSet{Validators: vals, PubKeys: tmconsensus.ValidatorsToPubKeys(vals)}
	if pkh == "val" {
		if k > 0 {
			vs.PubKeyHash, _ = e.hs.PubKeys(vs.PubKeys)
		} else {
			vs.PubKeyHash = e.rbytes(32)
		}
	}
	if vph == "val" {
		if k > 0 {
			vs.VotePowerHash, _ = e.hs.VotePowers(tmconsensus.ValidatorsToVotePowers(vals))
		} else {
			vs.VotePowerHash = e.rbytes(32)
		}
	}
	return vs
}

func (e *c14Env) proofMap(m []c14MapEntry) map[string][]gcrypto.SparseSignature {
	out := make(map[string][]gcrypto.SparseSignature, len(m))
	for _, en := range m {
		k := c14Cnt(en.N)
		sigs := make([]gcrypto.SparseSignature, k)
		for i := range sigs {
			sigs[i] = gcrypto.SparseSignature{KeyID: []byte{0, byte(e.rng.Intn(8))}, Sig: e.rbytes(64)}
		}
		out[e.blk[en.Key]] = sigs
	}
	return out
}

func (e *c14Env) pkhString(p string) string {
	if p == "empty" {
		return ""
	}
	return string(e.rbytes(32))
}

func (e *c14Env) header(s c14Shape) tmconsensus.Header {
	return tmconsensus.Header{
		Hash: e.pres(s.HHash, 32), PrevBlockHash: e.pres(s.HPrev, 32), Height: e.num64(s.HHeight),
		PrevCommitProof:  tmconsensus.CommitProof{Round: e.num32(s.PcpRound), PubKeyHash: e.pkhString(s.PcpPKH), Proofs: e.proofMap(s.PcpMap)},
		ValidatorSet:     e.valSet(s.Nv, s.VsPKH, s.VsVPH, 0),
		// the next set shares none, some or all of its keys (at the same index) with the current set; powers are independent
		NextValidatorSet: e.valSet(s.Nnv, s.NvsPKH, s.NvsVPH, e.rng.Intn(3)),
		DataID:           e.pres(s.HData, 40), PrevAppStateHash: e.pres(s.HApp, 40),
		Annotations: tmconsensus.Annotations{User: e.pres(s.HUser, 12), Driver: e.pres(s.HDriver, 12)},
	}
}

func (e *c14Env) proposedHeader(s c14Shape) tmconsensus.ProposedHeader {
	ph := tmconsensus.ProposedHeader{Header: e.header(s), Round: e.num32(s.PhRound), Signature: e.pres(s.Sig, 64),
		Annotations: tmconsensus.Annotations{User: e.pres(s.PaUser, 12), Driver: e.pres(s.PaDriver, 12)}}
	if s.Ppk == "val" {
		ph.ProposerPubKey = e.pv[4].Val.PubKey
	}
	return ph
}

// value instantiates the shape; the result is one of Header, ProposedHeader, CommittedHeader,
// PrevoteSparseProof, PrecommitSparseProof, tmcodec.ConsensusMessage.
func (e *c14Env) value(s c14Shape) any {
	switch c14Inner(s.Variant) {
	case "Header":
		return e.header(s)
	case "ProposedHeader":
		ph := e.proposedHeader(s)
		if c14IsCM(s.Variant) {
			return tmcodec.ConsensusMessage{ProposedHeader: &ph}
		}
		return ph
	case "CommittedHeader":
		return tmconsensus.CommittedHeader{Header: e.header(s),
			Proof: tmconsensus.CommitProof{Round: e.num32(s.PrfRound), PubKeyHash: e.pkhString(s.PrfPKH), Proofs: e.proofMap(s.PrfMap)}}
	case "PrevoteProof":
		p := tmconsensus.PrevoteSparseProof{Height: e.num64(s.PrfHeight), Round: e.num32(s.PrfRound), PubKeyHash: e.pkhString(s.PrfPKH), Proofs: e.proofMap(s.PrfMap)}
		if c14IsCM(s.Variant) {
			return tmcodec.ConsensusMessage{PrevoteProof: &p}
		}
		return p
	case "PrecommitProof":
		p := tmconsensus.PrecommitSparseProof{Height: e.num64(s.PrfHeight), Round: e.num32(s.PrfRound), PubKeyHash: e.pkhString(s.PrfPKH), Proofs: e.proofMap(s.PrfMap)}
		if c14IsCM(s.Variant) {
			return tmcodec.ConsensusMessage{PrecommitProof: &p}
		}
		return p
	}
	panic("unknown variant " + s.Variant)
}

func (e *c14Env) marshal(v any) ([]byte, error) {
	switch x := v.(type) {
	case tmconsensus.Header:
		return e.codec.MarshalHeader(x)
	case tmconsensus.ProposedHeader:
		return e.codec.MarshalProposedHeader(x)
	case tmconsensus.CommittedHeader:
		return e.codec.MarshalCommittedHeader(x)
	case tmconsensus.PrevoteSparseProof:
		return e.codec.MarshalPrevoteProof(x)
	case tmconsensus.PrecommitSparseProof:
		return e.codec.MarshalPrecommitProof(x)
	case tmcodec.ConsensusMessage:
		return e.codec.MarshalConsensusMessage(x)
	}
	panic("unknown value type")
}

var c14RangeRe = regexp.MustCompile(`\[.*$`)

// site / class of a recovered panic: first gordian frame that is not harness code; message without numbers.
func c14PanicInfo(r any) (site, class, msg string) {
	msg = fmt.Sprint(r)
	class = strings.TrimSpace(c14RangeRe.ReplaceAllString(msg, ""))
	if len(class) > 80 {
		class = class[:80]
	}
	pcs := make([]uintptr, 64)
	n := runtime.Callers(3, pcs)
	fr := runtime.CallersFrames(pcs[:n])
	site = "unknown"
	for {
		f, more := fr.Next()
		if strings.Contains(f.Function, "gordian-engine/gordian/") && !strings.Contains(f.File, "zz_verif_") && !strings.Contains(f.Function, "verifcommon") {
			site = strings.TrimPrefix(f.Function, "github.com/gordian-engine/gordian/")
			break
		}
		if !more {
			break
		}
	}
	return
}

type c14Result struct {
	kind    string // value | error | panic
	variant string // for ConsensusMessage: decoded variant, "none", or "multi"
	val     any
	site    string
	class   string
	msg     string
}

// unmarshal calls one Unmarshal method under recover.
func (e *c14Env) unmarshal(method string, b []byte) (res c14Result) {
	defer func() {
		if r := recover(); r != nil {
			res = c14Result{kind: "panic"}
			res.site, res.class, res.msg = c14PanicInfo(r)
		}
	}()
	var err error
	switch method {
	case "Header":
		var v tmconsensus.Header
		err = e.codec.UnmarshalHeader(b, &v)
		res.val = v
	case "ProposedHeader":
		var v tmconsensus.ProposedHeader
		err = e.codec.UnmarshalProposedHeader(b, &v)
		res.val = v
	case "CommittedHeader":
		var v tmconsensus.CommittedHeader
		err = e.codec.UnmarshalCommittedHeader(b, &v)
		res.val = v
	case "PrevoteProof":
		var v tmconsensus.PrevoteSparseProof
		err = e.codec.UnmarshalPrevoteProof(b, &v)
		res.val = v
	case "PrecommitProof":
		var v tmconsensus.PrecommitSparseProof
		err = e.codec.UnmarshalPrecommitProof(b, &v)
		res.val = v
	case "ConsensusMessage":
		var v tmcodec.ConsensusMessage
		err = e.codec.UnmarshalConsensusMessage(b, &v)
		res.val = v
		n := 0
		res.variant = "none"
		if v.ProposedHeader != nil {
			n++
			res.variant = "ProposedHeader"
		}
		if v.PrevoteProof != nil {
			n++
			res.variant = "PrevoteProof"
		}
		if v.PrecommitProof != nil {
			n++
			res.variant = "PrecommitProof"
		}
		if n > 1 {
			res.variant = "multi"
		}
	}
	if err != nil {
		res.kind = "error"
		res.val = nil
		res.msg = err.Error()
		return res
	}
	res.kind = "value"
	return res
}

// ---------------------------------------------------------------- consensus-relevant equality

func c14AnnEq(a, b []byte) bool { return (a == nil) == (b == nil) && bytes.Equal(a, b) }

func c14ProofsDiff(pre string, a, b map[string][]gcrypto.SparseSignature, d *[]string) {
	if len(a) != len(b) {
		*d = append(*d, pre+".entries")
		return
	}
	for k, sa := range a {
		sb, ok := b[k]
		if !ok {
			*d = append(*d, pre+".blockkey")
			return
		}
		if len(sa) != len(sb) {
			*d = append(*d, pre+".signatures")
			return
		}
		for i := range sa {
			if !bytes.Equal(sa[i].KeyID, sb[i].KeyID) {
				*d = append(*d, pre+".KeyID")
				return
			}
			if !bytes.Equal(sa[i].Sig, sb[i].Sig) {
				*d = append(*d, pre+".Sig")
				return
			}
		}
	}
}

func c14CommitProofDiff(pre string, a, b tmconsensus.CommitProof, d *[]string) {
	if a.Round != b.Round {
		*d = append(*d, pre+".Round")
	}
	if a.PubKeyHash != b.PubKeyHash {
		*d = append(*d, pre+".PubKeyHash")
	}
	c14ProofsDiff(pre+".Proofs", a.Proofs, b.Proofs, d)
}

func c14ValSetDiff(pre string, a, b tmconsensus.ValidatorSet, d *[]string) {
	if !bytes.Equal(a.PubKeyHash, b.PubKeyHash) {
		*d = append(*d, pre+".PubKeyHash")
	}
	if !bytes.Equal(a.VotePowerHash, b.VotePowerHash) {
		*d = append(*d, pre+".VotePowerHash")
	}
	if len(a.Validators) != len(b.Validators) {
		*d = append(*d, pre+".Validators.len")
		return
	}
	for i := range a.Validators {
		if a.Validators[i].Power != b.Validators[i].Power {
			*d = append(*d, pre+".Validators.Power")
		}
		if b.Validators[i].PubKey == nil || !a.Validators[i].PubKey.Equal(b.Validators[i].PubKey) {
			*d = append(*d, pre+".Validators.PubKey")
		}
	}
	if len(b.PubKeys) != len(b.Validators) {
		*d = append(*d, pre+".PubKeys.len")
		return
	}
	for i := range b.PubKeys {
		if b.PubKeys[i] == nil || !b.PubKeys[i].Equal(a.Validators[i].PubKey) {
			*d = append(*d, pre+".PubKeys")
		}
	}
}

func (e *c14Env) headerDiff(pre string, a, b tmconsensus.Header, d *[]string) {
	chk := func(n string, x, y []byte) {
		if !bytes.Equal(x, y) {
			*d = append(*d, pre+n)
		}
	}
	chk("Hash", a.Hash, b.Hash)
	chk("PrevBlockHash", a.PrevBlockHash, b.PrevBlockHash)
	chk("DataID", a.DataID, b.DataID)
	chk("PrevAppStateHash", a.PrevAppStateHash, b.PrevAppStateHash)
	if a.Height != b.Height {
		*d = append(*d, pre+"Height")
	}
	// nil vs empty annotations change the block hash under SimpleHashScheme: consensus relevant
	if !c14AnnEq(a.Annotations.User, b.Annotations.User) {
		*d = append(*d, pre+"Annotations.User")
	}
	if !c14AnnEq(a.Annotations.Driver, b.Annotations.Driver) {
		*d = append(*d, pre+"Annotations.Driver")
	}
	c14CommitProofDiff(pre+"PrevCommitProof", a.PrevCommitProof, b.PrevCommitProof, d)
	c14ValSetDiff(pre+"ValidatorSet", a.ValidatorSet, b.ValidatorSet, d)
	c14ValSetDiff(pre+"NextValidatorSet", a.NextValidatorSet, b.NextValidatorSet, d)
	if len(*d) == 0 {
		// the shipped hash scheme is the arbiter of "consensus relevant"
		ha, ea := e.hs.Block(a)
		hb, eb := e.hs.Block(b)
		if ea != nil || eb != nil || !bytes.Equal(ha, hb) {
			*d = append(*d, pre+"blockhash")
		}
	}
}

func (e *c14Env) phDiff(a, b tmconsensus.ProposedHeader, d *[]string) {
	e.headerDiff("Header.", a.Header, b.Header, d)
	if a.Round != b.Round {
		*d = append(*d, "Round")
	}
	if (a.ProposerPubKey == nil) != (b.ProposerPubKey == nil) || (a.ProposerPubKey != nil && !a.ProposerPubKey.Equal(b.ProposerPubKey)) {
		*d = append(*d, "ProposerPubKey")
	}
	if !bytes.Equal(a.Signature, b.Signature) {
		*d = append(*d, "Signature")
	}
	if !c14AnnEq(a.Annotations.User, b.Annotations.User) {
		*d = append(*d, "Annotations.User")
	}
	if !c14AnnEq(a.Annotations.Driver, b.Annotations.Driver) {
		*d = append(*d, "Annotations.Driver")
	}
	if len(*d) == 0 {
		sa, ea := tmconsensus.ProposalSignBytes(a.Header, a.Round, a.Annotations, e.ss)
		sb, eb := tmconsensus.ProposalSignBytes(b.Header, b.Round, b.Annotations, e.ss)
		if ea != nil || eb != nil || !bytes.Equal(sa, sb) {
			*d = append(*d, "proposalsignbytes")
		}
	}
}

// diff returns the consensus-relevant fields in which orig and got differ.
func (e *c14Env) diff(orig, got any) []string {
	var d []string
	switch a := orig.(type) {
	case tmconsensus.Header:
		e.headerDiff("", a, got.(tmconsensus.Header), &d)
	case tmconsensus.ProposedHeader:
		e.phDiff(a, got.(tmconsensus.ProposedHeader), &d)
	case tmconsensus.CommittedHeader:
		b := got.(tmconsensus.CommittedHeader)
		e.headerDiff("Header.", a.Header, b.Header, &d)
		c14CommitProofDiff("Proof", a.Proof, b.Proof, &d)
	case tmconsensus.PrevoteSparseProof:
		b := got.(tmconsensus.PrevoteSparseProof)
		if a.Height != b.Height {
			d = append(d, "Height")
		}
		if a.Round != b.Round {
			d = append(d, "Round")
		}
		if a.PubKeyHash != b.PubKeyHash {
			d = append(d, "PubKeyHash")
		}
		c14ProofsDiff("Proofs", a.Proofs, b.Proofs, &d)
	case tmconsensus.PrecommitSparseProof:
		b := got.(tmconsensus.PrecommitSparseProof)
		if a.Height != b.Height {
			d = append(d, "Height")
		}
		if a.Round != b.Round {
			d = append(d, "Round")
		}
		if a.PubKeyHash != b.PubKeyHash {
			d = append(d, "PubKeyHash")
		}
		c14ProofsDiff("Proofs", a.Proofs, b.Proofs, &d)
	case tmcodec.ConsensusMessage:
		b := got.(tmcodec.ConsensusMessage)
		switch {
		case a.ProposedHeader != nil && b.ProposedHeader != nil:
			return e.diff(*a.ProposedHeader, *b.ProposedHeader)
		case a.PrevoteProof != nil && b.PrevoteProof != nil:
			return e.diff(*a.PrevoteProof, *b.PrevoteProof)
		case a.PrecommitProof != nil && b.PrecommitProof != nil:
			return e.diff(*a.PrecommitProof, *b.PrecommitProof)
		default:
			d = append(d, "variant")
		}
	}
	sort.Strings(d)
	out := d[:0]
	for i, x := range d {
		if i == 0 || x != d[i-1] {
			out = append(out, x)
		}
	}
	return out
}

// ---------------------------------------------------------------- JSON tree manipulation

func c14Parse(b []byte) (any, error) {
	dec := json.NewDecoder(bytes.NewReader(b))
	dec.UseNumber()
	var v any
	err := dec.Decode(&v)
	return v, err
}

// c14Step resolves one abstract path element below node (parentKey: the object key under which node sits).
func (e *c14Env) stepIndex(node any, parentKey, el string) (idx int, ok bool) {
	arr, isArr := node.([]any)
	if !isArr {
		return 0, false
	}
	if parentKey == "Commits" || parentKey == "Proofs" {
		want := e.blk[el]
		for i, x := range arr {
			m, _ := x.(map[string]any)
			if m == nil {
				continue
			}
			s, _ := m["BlockHash"].(string)
			raw, err := base64.StdEncoding.DecodeString(s)
			if err == nil && string(raw) == want {
				return i, true
			}
		}
		return 0, false
	}
	i, err := strconv.Atoi(el)
	if err != nil || i < 0 || i >= len(arr) {
		return 0, false
	}
	return i, true
}

// rewrite returns a copy of node in which the node at path is replaced by f(old) (drop=true removes the key).
func (e *c14Env) rewrite(node any, parentKey string, path []string, drop bool, f func(old any) any) (any, bool) {
	if len(path) == 0 {
		return f(node), true
	}
	switch n := node.(type) {
	case map[string]any:
		child, ok := n[path[0]]
		if !ok {
			return nil, false
		}
		cp := make(map[string]any, len(n))
		for k, v := range n {
			cp[k] = v
		}
		if len(path) == 1 && drop {
			delete(cp, path[0])
			return cp, true
		}
		nv, ok := e.rewrite(child, path[0], path[1:], drop, f)
		if !ok {
			return nil, false
		}
		cp[path[0]] = nv
		return cp, true
	case []any:
		i, ok := e.stepIndex(n, parentKey, path[0])
		if !ok {
			return nil, false
		}
		cp := append([]any{}, n...)
		nv, ok := e.rewrite(n[i], "", path[1:], drop, f)
		if !ok {
			return nil, false
		}
		cp[i] = nv
		return cp, true
	}
	return nil, false
}

// applyCorr applies a structural corruption to valid bytes; returns the damaged documents
// (several for op "doc"/"truncate").
func (e *c14Env) applyCorr(valid []byte, c c14Corr) ([][]byte, error) {
	if c.Op == "doc" {
		switch c.Arg {
		case "truncate":
			cuts := map[int]bool{1: true, len(valid) - 1: true, len(valid) / 2: true}
			for i := 0; i < 12; i++ {
				cuts[1+e.rng.Intn(len(valid)-1)] = true
			}
			var out [][]byte
			for n := range cuts {
				out = append(out, append([]byte{}, valid[:n]...))
			}
			return out, nil
		case "empty":
			return [][]byte{{}, nil, []byte(" ")}, nil
		case "null":
			return [][]byte{[]byte("null")}, nil
		case "array":
			return [][]byte{append(append([]byte("["), valid...), ']'), []byte("[]")}, nil
		case "string":
			return [][]byte{[]byte(`"` + base64.StdEncoding.EncodeToString(valid) + `"`), []byte(`""`)}, nil
		case "number":
			return [][]byte{[]byte("123"), []byte("-1"), []byte("1e400")}, nil
		case "garbage":
			return [][]byte{append(append([]byte{}, valid...), 'x'), append(append([]byte{}, valid...), valid...), append(append([]byte{}, valid...), '}')}, nil
		}
		return nil, fmt.Errorf("unknown doc op %q", c.Arg)
	}
	root, err := c14Parse(valid)
	if err != nil {
		return nil, err
	}
	var repl func(old any) any
	drop := false
	switch c.Op {
	case "drop":
		drop = true
		repl = func(any) any { return nil }
	case "null":
		repl = func(any) any { return nil }
	case "retype":
		repl = func(any) any {
			switch c.Arg {
			case "num":
				return json.Number("1")
			case "str":
				return "@@ not base64 @@"
			case "obj":
				return map[string]any{}
			case "arr":
				return []any{}
			}
			return true
		}
	case "pk_trunc":
		n := c14Cnt(c.Arg)
		repl = func(any) any { return base64.StdEncoding.EncodeToString(e.keyEnc[:n]) }
	case "pk_badprefix":
		repl = func(old any) any {
			raw, _ := base64.StdEncoding.DecodeString(old.(string))
			raw = append([]byte{}, raw...)
			raw[0] = 'x'
			return base64.StdEncoding.EncodeToString(raw)
		}
	case "pk_shortbody":
		repl = func(old any) any {
			raw, _ := base64.StdEncoding.DecodeString(old.(string))
			return base64.StdEncoding.EncodeToString(raw[:13])
		}
	case "num":
		repl = func(any) any {
			switch c.Arg {
			case "neg":
				return json.Number("-1")
			case "huge":
				return json.Number("18446744073709551616")
			}
			return json.Number("1.5")
		}
	case "tag_swap", "tag_two":
		m, _ := root.(map[string]any)
		inner, ok := m[c.Path[0]]
		if !ok {
			return nil, fmt.Errorf("tag %q not present", c.Path[0])
		}
		cp := map[string]any{c.Arg: inner}
		if c.Op == "tag_two" {
			cp[c.Path[0]] = inner
		}
		b, err := json.Marshal(cp)
		return [][]byte{b}, err
	default:
		return nil, fmt.Errorf("unknown op %q", c.Op)
	}
	nr, ok := e.rewrite(root, "", c.Path, drop, repl)
	if !ok {
		return nil, fmt.Errorf("path %v not found in real encoding", c.Path)
	}
	b, err := json.Marshal(nr)
	return [][]byte{b}, err
}

// absPaths lists the abstract paths of a real JSON tree (same naming as Codec.tla) with node kinds.
type c14Node struct {
	path  []string
	kind  string // obj arr num str null
	pk    bool
	inObj bool
}

func (e *c14Env) absPaths(node any, parentKey string, pre []string, inObj bool, out *[]c14Node) {
	cp := append([]string{}, pre...)
	switch n := node.(type) {
	case map[string]any:
		if len(pre) > 0 {
			*out = append(*out, c14Node{path: cp, kind: "obj", inObj: inObj})
		}
		for k, v := range n {
			e.absPaths(v, k, append(cp, k), true, out)
		}
	case []any:
		*out = append(*out, c14Node{path: cp, kind: "arr", inObj: inObj})
		for i, v := range n {
			el := strconv.Itoa(i)
			if parentKey == "Commits" || parentKey == "Proofs" {
				m, _ := v.(map[string]any)
				s, _ := m["BlockHash"].(string)
				raw, _ := base64.StdEncoding.DecodeString(s)
				for name, val := range e.blk {
					if val == string(raw) {
						el = name
					}
				}
			}
			e.absPaths(v, "", append(cp, el), false, out)
		}
	case json.Number:
		*out = append(*out, c14Node{path: cp, kind: "num", inObj: inObj})
	case string:
		*out = append(*out, c14Node{path: cp, kind: "str", inObj: inObj, pk: parentKey == "PubKey" || parentKey == "ProposerPubKey"})
	case nil:
		*out = append(*out, c14Node{path: cp, kind: "null", inObj: inObj})
	}
}

func (e *c14Env) randShape() c14Shape {
	p := func(xs ...string) string { return xs[e.rng.Intn(len(xs))] }
	vs := []string{"Header", "ProposedHeader", "CommittedHeader", "PrevoteProof", "PrecommitProof", "CM.ProposedHeader", "CM.PrevoteProof", "CM.PrecommitProof"}
	pm := func() []c14MapEntry {
		keys := []string{"nilblk", "A", "B"}
		e.rng.Shuffle(3, func(i, j int) { keys[i], keys[j] = keys[j], keys[i] })
		n := e.rng.Intn(3)
		out := []c14MapEntry{}
		for _, k := range keys[:n] {
			out = append(out, c14MapEntry{Key: k, N: p("0", "1", "2")})
		}
		return out
	}
	pr := func() string { return p("nil", "empty", "val") }
	nu := func() string { return p("0", "1", "max") }
	return c14Shape{Variant: vs[e.rng.Intn(len(vs))], HHash: pr(), HPrev: pr(), HData: pr(), HApp: pr(), HUser: pr(), HDriver: pr(),
		HHeight: nu(), Nv: p("0", "1", "2"), Nnv: p("0", "1", "2"), VsPKH: p("nil", "val"), VsVPH: p("nil", "val"), NvsPKH: p("nil", "val"),
		NvsVPH: p("nil", "val"), PcpRound: nu(), PcpPKH: p("empty", "val"), PcpMap: pm(), PhRound: nu(), Ppk: p("nil", "val"), Sig: pr(),
		PaUser: pr(), PaDriver: pr(), PrfHeight: nu(), PrfRound: nu(), PrfPKH: p("empty", "val"), PrfMap: pm()}
}

func (e *c14Env) randCorr(valid []byte, cm bool) (c14Corr, bool) {
	root, err := c14Parse(valid)
	if err != nil {
		return c14Corr{}, false
	}
	var nodes []c14Node
	e.absPaths(root, "", nil, false, &nodes)
	sort.Slice(nodes, func(i, j int) bool { return strings.Join(nodes[i].path, "/") < strings.Join(nodes[j].path, "/") })
	if len(nodes) == 0 {
		return c14Corr{}, false
	}
	for try := 0; try < 20; try++ {
		n := nodes[e.rng.Intn(len(nodes))]
		switch e.rng.Intn(9) {
		case 0:
			if n.inObj {
				return c14Corr{Op: "drop", Path: n.path, Arg: "-"}, true
			}
		case 1:
			return c14Corr{Op: "null", Path: n.path, Arg: "-"}, true
		case 2:
			return c14Corr{Op: "retype", Path: n.path, Arg: []string{"num", "str", "obj", "arr", "bool"}[e.rng.Intn(5)]}, true
		case 3, 4:
			if n.pk {
				return c14Corr{Op: "pk_trunc", Path: n.path, Arg: strconv.Itoa(e.rng.Intn(9))}, true
			}
		case 5:
			if n.pk {
				return c14Corr{Op: []string{"pk_badprefix", "pk_shortbody"}[e.rng.Intn(2)], Path: n.path, Arg: "-"}, true
			}
		case 6:
			if n.kind == "num" {
				return c14Corr{Op: "num", Path: n.path, Arg: []string{"neg", "huge", "float"}[e.rng.Intn(3)]}, true
			}
		case 7:
			return c14Corr{Op: "doc", Path: []string{}, Arg: []string{"truncate", "empty", "null", "array", "string", "number", "garbage"}[e.rng.Intn(7)]}, true
		case 8:
			if cm {
				m := root.(map[string]any)
				for tag := range m {
					others := []string{}
					for _, t := range []string{"ProposedHeader", "PrevoteProof", "PrecommitProof"} {
						if t != tag {
							others = append(others, t)
						}
					}
					return c14Corr{Op: []string{"tag_swap", "tag_two"}[e.rng.Intn(2)], Path: []string{tag}, Arg: others[e.rng.Intn(2)]}, true
				}
			}
		}
	}
	return c14Corr{}, false
}

// ---------------------------------------------------------------- byte-level mutations

func (e *c14Env) mutateBytes(valid []byte) []byte {
	b := append([]byte{}, valid...)
	if len(b) == 0 {
		return b
	}
	switch e.rng.Intn(8) {
	case 0:
		b[e.rng.Intn(len(b))] ^= 1 << uint(e.rng.Intn(8))
	case 1:
		b[e.rng.Intn(len(b))] = byte(e.rng.Intn(256))
	case 2:
		i := e.rng.Intn(len(b))
		b = append(b[:i], b[i+1:]...)
	case 3:
		i := e.rng.Intn(len(b) + 1)
		b = append(b[:i], append([]byte{byte(e.rng.Intn(256))}, b[i:]...)...)
	case 4:
		b = b[:e.rng.Intn(len(b))]
	case 5: // splice a chunk elsewhere
		i, j := e.rng.Intn(len(b)), e.rng.Intn(len(b))
		if i > j {
			i, j = j, i
		}
		k := e.rng.Intn(len(b))
		b = append(b[:k], append(append([]byte{}, valid[i:j]...), b[k:]...)...)
	case 6: // replace one JSON string literal by base64 of a short random byte string
		idx := []int{}
		for i, c := range b {
			if c == '"' {
				idx = append(idx, i)
			}
		}
		if len(idx) >= 2 {
			k := e.rng.Intn(len(idx) - 1)
			i, j := idx[k], idx[k+1]
			if j > i+1 && bytes.IndexByte(b[i+1:j], ':') < 0 && bytes.IndexByte(b[i+1:j], ',') < 0 {
				s := base64.StdEncoding.EncodeToString(e.rbytes(e.rng.Intn(12)))
				b = append(append(append([]byte{}, b[:i+1]...), s...), b[j:]...)
			}
		}
	case 7: // replace a digit run by a random token
		for try := 0; try < 10; try++ {
			i := e.rng.Intn(len(b))
			if b[i] >= '0' && b[i] <= '9' && i > 0 && b[i-1] == ':' {
				tok := []string{"-1", "1e99", "99999999999999999999999", "null", "true", "\"1\"", "[]", "{}", "0.5"}[e.rng.Intn(9)]
				j := i
				for j < len(b) && b[j] >= '0' && b[j] <= '9' {
					j++
				}
				b = append(append(append([]byte{}, b[:i]...), tok...), b[j:]...)
				break
			}
		}
	}
	return b
}

// ---------------------------------------------------------------- the test

func TestVerifC14(t *testing.T) {
	out := vc.Open("VERIF_OUT")
	defer out.Close()
	trace := vc.Open("VERIF_TRACE")
	defer trace.Close()
	seed := int64(vc.EnvInt("VERIF_SEED", 1))
	nVal := vc.EnvInt("VERIF_VALUATIONS", 2)
	nMut := vc.EnvInt("VERIF_BYTE_MUTATIONS", 40)
	nTrace := vc.EnvInt("VERIF_TRACE_N", 200)
	nRegRandom := vc.EnvInt("VERIF_REGISTRY_RANDOM", 20000)
	e := c14NewEnv(seed)
	cases := vc.ReadNDJSON[c14Case]("VERIF_IN")

	counts := map[string]int{}
	distinct := map[string]struct{}{}
	opsSeen := map[string]int{}
	nViol, nMismatch := 0, 0
	perClass := map[string]int{} // at most 3 records per fingerprint, so one class cannot hide another
	violation := func(pred, site, class, what string, c any) {
		nViol++
		k := pred + "|" + site + "|" + class
		perClass[k]++
		if perClass[k] <= 3 {
			out.Emit(vc.M{"kind": "violation", "predicate": pred, "site": site, "class": class, "what": what, "case": c})
		}
	}
	replayMode := os.Getenv("VERIF_REPLAY") != ""
	mismatch := func(what string, c any) {
		if replayMode {
			return // a replayed case carries no prediction
		}
		nMismatch++
		if nMismatch <= 50 {
			out.Emit(vc.M{"kind": "mismatch", "what": what, "case": c})
		}
	}
	// decodeAll: every Unmarshal method on b; panics are DecodeTotal violations.
	decodeAll := func(b []byte, src string, c any) map[string]c14Result {
		res := map[string]c14Result{}
		for _, m := range c14Methods {
			out.Flush()
			r := e.unmarshal(m, b)
			counts["decode_calls"]++
			res[m] = r
			if r.kind == "panic" {
				bb := b
				if len(bb) > 600 {
					bb = bb[:600]
				}
				violation("DecodeTotal", r.site, r.class, fmt.Sprintf("Unmarshal%s panicked on %s input: %s", m, src, r.msg),
					vc.M{"method": m, "src": src, "case": c, "bytes": string(bb), "bytes_b64": base64.StdEncoding.EncodeToString(b)})
			}
		}
		return res
	}

	if rb := os.Getenv("VERIF_REPLAY_BYTES_B64"); rb != "" {
		if b, err := base64.StdEncoding.DecodeString(rb); err == nil {
			decodeAll(b, "replay-bytes", nil)
		}
	}
	var validDocs [][]byte
	for ci, c := range cases {
		opsSeen[c.Op+":"+c.Corr.Op]++
		for v := 0; v < nVal; v++ {
			if c.Op == "corrupt" && v > 0 {
				break
			}
			e.newValuation()
			orig := e.value(c.Shape)
			valid, err := e.marshal(orig)
			if err != nil {
				mismatch("Marshal returned error: "+err.Error(), c)
				continue
			}
			method := c14MethodOf(c.Shape.Variant)
			if c.Op == "shape" {
				counts["shape_evals"]++
				sj, _ := json.Marshal(c.Shape)
				distinct["shape|"+string(sj)] = struct{}{}
				if len(validDocs) < 4000 && (ci%3 == 0 || v == 0) {
					validDocs = append(validDocs, valid)
				}
				res := decodeAll(valid, "valid-encoding", c.Shape)
				r := res[method]
				switch r.kind {
				case "error":
					violation("RoundTripEq", "Unmarshal"+method, "decode-error", "decoding the encoder's output failed: "+r.msg, vc.M{"shape": c.Shape, "bytes": string(valid)})
				case "value":
					if d := e.diff(orig, r.val); len(d) > 0 {
						cls := strings.Join(d, "+")
						pred := "RoundTripEq"
						if cls == "variant" {
							pred = "VariantPreserved"
						}
						violation(pred, "Marshal/Unmarshal"+method, cls, "decode(encode(x)) differs from x in consensus-relevant field(s) "+cls, vc.M{"shape": c.Shape, "bytes": string(valid)})
					}
					if method == "ConsensusMessage" && r.variant != c14Inner(c.Shape.Variant) {
						violation("VariantPreserved", "UnmarshalConsensusMessage", c14Inner(c.Shape.Variant)+"->"+r.variant,
							"consensus message encoded as "+c14Inner(c.Shape.Variant)+" decoded as "+r.variant, vc.M{"shape": c.Shape, "bytes": string(valid)})
					}
				}
				for _, m := range c14Methods {
					if got := res[m].kind; got != "panic" && got != c.ExpAsIs[m] && got != c.ExpDesign[m] {
						mismatch(fmt.Sprintf("valid %s document via Unmarshal%s: spec predicts %s, code gives %s", c.Shape.Variant, m, c.ExpAsIs[m], got), c)
					}
				}
				continue
			}
			// corrupt
			docs, err := e.applyCorr(valid, c.Corr)
			if err != nil {
				mismatch("corruption not applicable to the real encoding: "+err.Error(), c)
				continue
			}
			cj, _ := json.Marshal(vc.M{"s": c.Shape, "c": c.Corr})
			distinct["corr|"+string(cj)] = struct{}{}
			for _, doc := range docs {
				counts["corrupt_evals"]++
				res := decodeAll(doc, "structural:"+c.Corr.Op, vc.M{"shape": c.Shape, "corr": c.Corr})
				for _, m := range c14Methods {
					got := res[m].kind
					if got != c.ExpAsIs[m] && got != c.ExpDesign[m] {
						mismatch(fmt.Sprintf("%s/%v/%s on %s via Unmarshal%s: spec predicts %s (design %s), code gives %s (%s)", c.Corr.Op, c.Corr.Path, c.Corr.Arg,
							c.Shape.Variant, m, c.ExpAsIs[m], c.ExpDesign[m], got, res[m].msg), vc.M{"shape": c.Shape, "corr": c.Corr, "doc": string(doc)})
					}
				}
				if r := res["ConsensusMessage"]; r.kind == "value" && c.Corr.Op != "doc" && r.variant != c.Variant {
					mismatch(fmt.Sprintf("decoded variant: spec %s, code %s", c.Variant, r.variant), vc.M{"shape": c.Shape, "corr": c.Corr, "doc": string(doc)})
				}
			}
		}
	}

	// seeded byte-level mutations of valid encodings (derived from the same shapes)
	for _, valid := range validDocs {
		for i := 0; i < nMut; i++ {
			b := e.mutateBytes(valid)
			if i%5 == 4 {
				b = e.mutateBytes(b)
			}
			counts["byte_mutation_docs"]++
			decodeAll(b, "byte-mutation", nil)
		}
	}

	// gcrypto.Registry / ed25519 directly
	regCall := func(name string, f func() (gcrypto.PubKey, error), in []byte) {
		counts["registry_calls"]++
		defer func() {
			if r := recover(); r != nil {
				site, class, msg := c14PanicInfo(r)
				violation("DecodeTotal", site, class, fmt.Sprintf("%s panicked on %d-byte input: %s", name, len(in), msg), vc.M{"call": name, "input_b64": base64.StdEncoding.EncodeToString(in)})
			}
		}()
		k, err := f()
		if err == nil && k != nil {
			_ = k.PubKeyBytes()
			_ = k.TypeName()
			_ = k.Equal(e.pv[0].Val.PubKey)
			_ = e.pv[0].Val.PubKey.Equal(k)
		}
	}
	if rb := os.Getenv("VERIF_REPLAY_REG_B64"); rb != "" || os.Getenv("VERIF_REPLAY_REG") != "" {
		raw, _ := base64.StdEncoding.DecodeString(rb)
		in := append(make([]byte, 0, len(raw)), raw...)
		switch os.Getenv("VERIF_REPLAY_REG") {
		case "Registry.Decode":
			for _, name := range []string{"ed25519", "", "ed25519\x00", "bls", "toolongtypename"} {
				regCall("Registry.Decode", func() (gcrypto.PubKey, error) { return e.reg.Decode(name, in) }, in)
			}
		case "NewEd25519PubKey":
			regCall("NewEd25519PubKey", func() (gcrypto.PubKey, error) { return gcrypto.NewEd25519PubKey(in) }, in)
		default:
			regCall("Registry.Unmarshal", func() (gcrypto.PubKey, error) { return e.reg.Unmarshal(in) }, in)
		}
	}
	for n := 0; n <= len(e.keyEnc) && !replayMode; n++ {
		in := append(make([]byte, 0, n), e.keyEnc[:n]...) // capacity == length
		regCall("Registry.Unmarshal", func() (gcrypto.PubKey, error) { return e.reg.Unmarshal(in) }, in)
		distinct[fmt.Sprintf("reg|prefix|%d", n)] = struct{}{}
	}
	if !replayMode {
		regCall("Registry.Unmarshal", func() (gcrypto.PubKey, error) { return e.reg.Unmarshal(nil) }, nil)
	}
	for i := 0; i < nRegRandom; i++ {
		n := e.rng.Intn(48)
		in := make([]byte, n)
		e.rng.Read(in)
		if i%3 == 0 && n >= 7 {
			copy(in, "ed25519")
			if n >= 8 && i%2 == 0 {
				in[7] = 0
			}
		}
		regCall("Registry.Unmarshal", func() (gcrypto.PubKey, error) { return e.reg.Unmarshal(in) }, in)
		name := []string{"ed25519", "", "ed25519\x00", "bls", "toolongtypename"}[e.rng.Intn(5)]
		regCall("Registry.Decode", func() (gcrypto.PubKey, error) { return e.reg.Decode(name, in) }, in)
		regCall("NewEd25519PubKey", func() (gcrypto.PubKey, error) { return gcrypto.NewEd25519PubKey(in) }, in)
	}
	// marshal/unmarshal of every real key through the registry
	for _, p := range e.pv {
		enc := e.reg.Marshal(p.Val.PubKey)
		k, err := e.reg.Unmarshal(enc)
		counts["registry_roundtrips"]++
		if err != nil || !k.Equal(p.Val.PubKey) {
			violation("RoundTripEq", "gcrypto.(*Registry).Unmarshal", "pubkey", "registry round trip of a public key failed", vc.M{"key": base64.StdEncoding.EncodeToString(enc)})
		}
	}

	// code -> spec trace: random shapes over the full product, random corruption, observed outcomes
	for i := 0; i < nTrace; i++ {
		e.newValuation()
		s := e.randShape()
		orig := e.value(s)
		valid, err := e.marshal(orig)
		if err != nil {
			continue
		}
		c := c14Corr{Op: "-", Path: []string{}, Arg: "-"}
		docs := [][]byte{valid}
		if i%5 != 0 {
			rc, ok := e.randCorr(valid, c14IsCM(s.Variant))
			if !ok {
				continue
			}
			d, err := e.applyCorr(valid, rc)
			if err != nil {
				mismatch("random corruption not applicable: "+err.Error(), vc.M{"shape": s, "corr": rc})
				continue
			}
			c, docs = rc, d[:1]
		}
		res := decodeAll(docs[0], "trace:"+c.Op, vc.M{"shape": s, "corr": c})
		if c.Op == "-" {
			r := res[c14MethodOf(s.Variant)]
			counts["random_roundtrips"]++
			if r.kind == "error" {
				violation("RoundTripEq", "Unmarshal"+c14MethodOf(s.Variant), "decode-error", "decoding the encoder's output failed: "+r.msg, vc.M{"shape": s})
			} else if r.kind == "value" {
				if d := e.diff(orig, r.val); len(d) > 0 {
					violation("RoundTripEq", "Marshal/Unmarshal"+c14MethodOf(s.Variant), strings.Join(d, "+"), "decode(encode(x)) differs from x (random shape)", vc.M{"shape": s})
				}
			}
		}
		outs := map[string]string{}
		for _, m := range c14Methods {
			outs[m] = res[m].kind
		}
		variant := res["ConsensusMessage"].variant
		if res["ConsensusMessage"].kind != "value" || c.Op == "doc" {
			variant = "-"
		}
		sj, _ := json.Marshal(vc.M{"s": s, "c": c})
		distinct["trace|"+string(sj)] = struct{}{}
		trace.Emit(vc.M{"shape": s, "corr": c, "outs": outs, "variant": variant})
	}

	out.Emit(vc.M{"kind": "summary", "cases": len(cases), "shape_evals": counts["shape_evals"], "corrupt_evals": counts["corrupt_evals"],
		"decode_calls": counts["decode_calls"], "byte_mutation_docs": counts["byte_mutation_docs"], "registry_calls": counts["registry_calls"],
		"registry_roundtrips": counts["registry_roundtrips"], "random_roundtrips": counts["random_roundtrips"],
		"distinct": len(distinct), "violations": nViol, "mismatches": nMismatch, "trace_rows": trace.Count(), "ops_seen": opsSeen})
}
