package gblsminsig

// C13 conformance harness, white-box part (overlaid into /repo/gcrypto/gblsminsig by /verif/bin/check).
// Merge documents its argument as untrusted; a SignatureProof holding unverified signatures cannot be
// built through the exported API, so the harness stores them in the tree directly.

import (
	"github.com/gordian-engine/gordian/gcrypto"
	blst "github.com/supranational/blst/bindings/go"
)

// VerifC13ForgeEntry stores Sig (compressed, must decode) at tree index Idx without verification.
type VerifC13ForgeEntry struct {
	Idx int
	Sig []byte
}

func VerifC13ForgeBLS(msg []byte, keys []PubKey, hash string, es []VerifC13ForgeEntry) gcrypto.CommonMessageSignatureProof {
	p, err := NewSignatureProof(msg, keys, hash)
	if err != nil {
		panic(err)
	}
	for _, e := range es {
		s := new(blst.P1Affine).Uncompress(e.Sig)
		if s == nil {
			panic("harness: forged signature does not decode")
		}
		p.sigTree.AddSignature(e.Idx, *s)
	}
	return p
}
