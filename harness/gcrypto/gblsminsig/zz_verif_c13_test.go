package gblsminsig_test

// C13 conformance harness for gblsminsig.SignatureProof / SignatureProofScheme with real BLS keys
// (overlaid into /repo/gcrypto/gblsminsig by /verif/bin/check).  The scheme-independent engine is
// gcrypto/zzverifc13; this file supplies the concrete keys, (aggregated) signatures and corruptions.

import (
	"context"
	"fmt"
	"sync"
	"testing"

	"github.com/gordian-engine/gordian/gcrypto"
	"github.com/gordian-engine/gordian/gcrypto/gblsminsig"
	"github.com/gordian-engine/gordian/gcrypto/gblsminsig/gblsminsigtest"
	c13 "github.com/gordian-engine/gordian/gcrypto/zzverifc13"
	blst "github.com/supranational/blst/bindings/go"
)

type c13BLS struct {
	k       int
	g       *c13.Geo
	signers []gblsminsig.Signer // k+1: the last one is not a candidate
	keys    []gblsminsig.PubKey

	mu    sync.Mutex
	cache map[string][]byte
}

func newC13BLS(k int) c13.Adapter {
	a := &c13BLS{k: k, g: c13.NewGeo(k, "bls"), signers: gblsminsigtest.DeterministicSigners(k + 1), cache: map[string][]byte{}}
	for i := 0; i < k; i++ {
		a.keys = append(a.keys, a.signers[i].PubKey().(gblsminsig.PubKey))
	}
	return a
}

func (a *c13BLS) Scheme() string              { return "bls" }
func (a *c13BLS) K() int                      { return a.k }
func (a *c13BLS) MsgBytes(msg string) []byte  { return []byte("c13/" + msg) }
func (a *c13BLS) PubKey(i int) gcrypto.PubKey { return a.signers[i].PubKey() }
func (a *c13BLS) SchemeImpl() gcrypto.CommonMessageSignatureProofScheme {
	return gblsminsig.SignatureProofScheme{}
}

func (a *c13BLS) NewProof(msg, hash string) gcrypto.CommonMessageSignatureProof {
	p, err := gblsminsig.NewSignatureProof(a.MsgBytes(msg), a.keys, hash)
	if err != nil {
		panic(err)
	}
	return p
}

func (a *c13BLS) cached(key string, f func() []byte) []byte {
	a.mu.Lock()
	if v, ok := a.cache[key]; ok {
		a.mu.Unlock()
		return append([]byte(nil), v...)
	}
	a.mu.Unlock()
	v := f()
	a.mu.Lock()
	a.cache[key] = v
	a.mu.Unlock()
	return append([]byte(nil), v...)
}

func (a *c13BLS) sign(i int, msg string) []byte {
	return a.cached(fmt.Sprintf("s/%d/%s", i, msg), func() []byte {
		s, err := a.signers[i].Sign(context.Background(), a.MsgBytes(msg))
		if err != nil {
			panic(err)
		}
		return s
	})
}

func aggregate(sigs [][]byte) []byte {
	acc := new(blst.P1)
	for _, s := range sigs {
		p := new(blst.P1Affine).Uncompress(s)
		if p == nil {
			panic("harness: own signature does not decode")
		}
		acc = acc.Add(p)
	}
	return acc.ToAffine().Compress()
}

func (a *c13BLS) ForeignSig(msg string) []byte { return a.sign(a.k, msg) }

func (a *c13BLS) AggSig(leaves []int, msg string) []byte {
	return a.cached(fmt.Sprintf("a/%v/%s", leaves, msg), func() []byte {
		var sigs [][]byte
		for _, i := range leaves {
			sigs = append(sigs, a.sign(i, msg))
		}
		return aggregate(sigs)
	})
}

func (a *c13BLS) Sig(n int, msg, corr string) []byte {
	leaves := []int{0}
	if n >= 0 && n < a.g.NN && len(a.g.LeafList(n)) > 0 {
		leaves = a.g.LeafList(n)
	}
	switch corr {
	case "ok":
		return a.AggSig(leaves, msg)
	case "othersigner":
		// the genuine signature of one member replaced by the signature of a key outside the node
		return a.cached(fmt.Sprintf("o/%v/%s", leaves, msg), func() []byte {
			sigs := [][]byte{a.sign(a.k, msg)}
			for _, i := range leaves[1:] {
				sigs = append(sigs, a.sign(i, msg))
			}
			return aggregate(sigs)
		})
	case "othermsg":
		return a.AggSig(leaves, msg+"-x")
	case "bitflip":
		// flipped bit(s) such that the bytes still decode as a signature
		return a.cached(fmt.Sprintf("f/%v/%s", leaves, msg), func() []byte {
			ok := a.AggSig(leaves, msg)
			for pos := 47; pos >= 1; pos-- {
				for bit := uint(0); bit < 8; bit++ {
					c := append([]byte(nil), ok...)
					c[pos] ^= 1 << bit
					if p := new(blst.P1Affine).Uncompress(c); p != nil {
						return c
					}
				}
			}
			panic("harness: no decodable bit flip found")
		})
	case "garbage":
		// bytes that do not decode as a signature
		if n%2 == 0 {
			c := make([]byte, 48)
			for i := range c {
				c[i] = 0xff
			}
			return c
		}
		return a.AggSig(leaves, msg)[:47]
	}
	panic("bad corr " + corr)
}

func (a *c13BLS) Forge(msg, hash string, O, B []int, bk string) gcrypto.CommonMessageSignatureProof {
	if len(B) == 0 {
		p := a.NewProof(msg, hash)
		for _, i := range O {
			if err := p.AddSignature(a.sign(i, msg), a.keys[i]); err != nil {
				panic(err)
			}
		}
		return p
	}
	bad := map[int]bool{}
	for _, b := range B {
		bad[b] = true
	}
	var es []gblsminsig.VerifC13ForgeEntry
	for _, i := range O {
		sig := a.sign(i, msg)
		if bad[i] {
			if bk == "othersigner" {
				sig = a.sign(a.k, msg)
			} else {
				sig = a.sign(i, msg+"-x")
			}
		}
		es = append(es, gblsminsig.VerifC13ForgeEntry{Idx: i, Sig: sig})
	}
	return gblsminsig.VerifC13ForgeBLS(a.MsgBytes(msg), a.keys, hash, es)
}

func TestVerifC13BLS(t *testing.T) {
	c13.Drive("bls", newC13BLS)
}
