package gcrypto

// C13 conformance harness, white-box part (overlaid into /repo/gcrypto by /verif/bin/check).
// Merge documents its argument as untrusted ("the proof should verify every provided signature in
// other"); a proof holding unverified signatures cannot be built through the exported API, so the
// harness builds one here.

import "github.com/bits-and-blooms/bitset"

// VerifC13ForgeEntry claims that Sig is the signature of candidate key KeyIdx.
type VerifC13ForgeEntry struct {
	KeyIdx int
	Sig    []byte
}

// VerifC13ForgeSimple returns a SimpleCommonMessageSignatureProof whose signature table and bit set
// were filled in without verification.
func VerifC13ForgeSimple(msg []byte, keys []PubKey, hash string, es []VerifC13ForgeEntry) CommonMessageSignatureProof {
	p, err := NewSimpleCommonMessageSignatureProof(msg, keys, hash)
	if err != nil {
		panic(err)
	}
	p.bitset = bitset.New(uint(len(keys)))
	for _, e := range es {
		p.sigs[string(e.Sig)] = keys[e.KeyIdx]
		p.bitset.Set(uint(e.KeyIdx))
	}
	return p
}
