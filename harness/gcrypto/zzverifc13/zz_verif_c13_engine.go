// Package zzverifc13 is the scheme-independent part of the C13 conformance harness.
// It is compiled into /repo through `go test -overlay` (new package directory) and is not part of gordian.
//
// It drives real gcrypto.CommonMessageSignatureProof values (through an Adapter that supplies real keys
// and real signatures for one scheme) in two ways:
//
//	spec -> code: behaviours exported by TLC from spec/SigProof.tla are replayed; after every step the
//	              real observable (signer bitsets of both proof objects, sparse key ids, merge flags,
//	              error / panic, validated finalized proof) is compared with the spec's `exp`.
//	code -> spec: seeded random behaviours over larger key sets are executed; the named rules are
//	              evaluated directly on the real objects and every step is logged for SigProofTrace.tla.
package zzverifc13

import (
	"encoding/binary"
	"encoding/json"
	"fmt"
	"math/big"
	"math/rand"
	"os"
	"sort"
	"strings"
	"sync"

	"github.com/bits-and-blooms/bitset"
	"github.com/gordian-engine/gordian/gcrypto"
	vc "github.com/gordian-engine/gordian/internal/verifcommon"
)

// Adapter concretises the abstract alphabet of SigProof.tla for one scheme and one key-set size.
type Adapter interface {
	Scheme() string // "simple" | "bls"
	K() int
	// NewProof returns an empty proof over the K candidate keys for the named message
	// ("main", "other", "rest1", "rest2") with the given pub key hash.
	NewProof(msg, hash string) gcrypto.CommonMessageSignatureProof
	// PubKey(i) for i in 0..K-1 is candidate key i; PubKey(K) is a key that is not a candidate.
	PubKey(i int) gcrypto.PubKey
	// Sig returns signature bytes offered for tree node n (leaf n for the simple scheme) over msg:
	// corr = ok | othersigner | othermsg | bitflip | garbage.
	Sig(n int, msg, corr string) []byte
	// ForeignSig is a genuine signature over msg by the key PubKey(K), which is not a candidate.
	ForeignSig(msg string) []byte
	// AggSig is the genuine (aggregated) signature of exactly these leaves over msg.
	AggSig(leaves []int, msg string) []byte
	// Forge returns an untrusted full proof claiming signatures of leaves O, those in B being bad (kind bk).
	Forge(msg, hash string, O, B []int, bk string) gcrypto.CommonMessageSignatureProof
	SchemeImpl() gcrypto.CommonMessageSignatureProofScheme
	MsgBytes(msg string) []byte
}

// ---------------------------------------------------------------------------------------------
// Tree geometry (transliteration of the operators of SigProof.tla; SigProofTrace.tla re-checks it).

type Geo struct {
	K, NN  int
	Scheme string
	Leaves []uint32 // bit mask of leaves per node
	Parent []int
	Sib    []int
}

func NewGeo(k int, scheme string) *Geo {
	g := &Geo{K: k, Scheme: scheme}
	if scheme == "simple" {
		g.NN = k
		for n := 0; n < k; n++ {
			g.Leaves = append(g.Leaves, 1<<uint(n))
			g.Parent = append(g.Parent, -1)
			g.Sib = append(g.Sib, n^1)
		}
		return g
	}
	w := 1
	for w < k {
		w <<= 1
	}
	g.NN = 2*w - 1
	start, width, lvl := 0, w, 0
	for n := 0; n < g.NN; n++ {
		if n >= start+width {
			start += width
			width >>= 1
			lvl++
		}
		off := n - start
		var m uint32
		for i := 0; i < k; i++ {
			if i>>uint(lvl) == off {
				m |= 1 << uint(i)
			}
		}
		g.Leaves = append(g.Leaves, m)
		if n == g.NN-1 {
			g.Parent = append(g.Parent, -1)
		} else {
			g.Parent = append(g.Parent, start+width+off/2)
		}
		g.Sib = append(g.Sib, n^1)
	}
	return g
}

func (g *Geo) Cascade(h uint64, n int) uint64 {
	for {
		h |= 1 << uint(n)
		par := g.Parent[n]
		if par < 0 || h&(1<<uint(par)) != 0 {
			return h
		}
		sb := g.Sib[n]
		if g.Leaves[sb] == 0 || h&(1<<uint(sb)) != 0 {
			n = par
			continue
		}
		return h
	}
}

func (g *Geo) Bits(h uint64) uint32 {
	var b uint32
	for n := 0; n < g.NN; n++ {
		if h&(1<<uint(n)) != 0 {
			b |= g.Leaves[n]
		}
	}
	return b
}

func (g *Geo) Tops(h uint64) []int {
	var t []int
	for n := 0; n < g.NN; n++ {
		if h&(1<<uint(n)) == 0 {
			continue
		}
		anc := false
		for p := g.Parent[n]; p >= 0; p = g.Parent[p] {
			if h&(1<<uint(p)) != 0 {
				anc = true
				break
			}
		}
		if !anc {
			t = append(t, n)
		}
	}
	return t
}

func (g *Geo) LeafList(n int) []int { return maskList(g.Leaves[n]) }

func maskList(m uint32) []int {
	out := []int{}
	for i := 0; i < 32; i++ {
		if m&(1<<uint(i)) != 0 {
			out = append(out, i)
		}
	}
	return out
}

func listMask(l []int) uint32 {
	var m uint32
	for _, i := range l {
		m |= 1 << uint(i)
	}
	return m
}

// ---------------------------------------------------------------------------------------------
// Behaviour records (the JSON TLC prints with ToJson(hist)).

type Entry struct {
	Kc   string `json:"kc"`
	N    int    `json:"n"`
	Corr string `json:"corr"`
}
type Flags struct {
	Av  bool `json:"av"`
	Inc bool `json:"inc"`
	Ss  bool `json:"ss"`
}
type Obs struct {
	B0   []int `json:"b0"`
	B1   []int `json:"b1"`
	T0   []int `json:"t0"`
	T1   []int `json:"t1"`
	Has1 bool  `json:"has1"`
}
type FC struct {
	Kind string `json:"kind"`
	Cnt  int    `json:"cnt"`
	Idx  int    `json:"idx"`
}
type FinID struct {
	Blk int `json:"blk"`
	Cnt int `json:"cnt"`
	Idx int `json:"idx"`
}
type FinRes struct {
	Nilmap bool    `json:"nilmap"`
	Uniq   bool    `json:"uniq"`
	Exact  bool    `json:"exact"`
	Sets   [][]int `json:"sets"`
	Ids    []FinID `json:"ids"`
}
type Arg struct {
	// add
	Key  int    `json:"key"`
	Corr string `json:"corr"`
	// sparse
	HashOK bool    `json:"hashOK"`
	Es     []Entry `json:"es"`
	// merge
	O     []int  `json:"O"`
	B     []int  `json:"B"`
	Bk    string `json:"bk"`
	Match string `json:"match"`
}
type Step struct {
	Op     string  `json:"op"`
	K      int     `json:"k,omitempty"`
	Sch    string  `json:"sch,omitempty"`
	Nodes  []int   `json:"nodes,omitempty"`
	L3     bool    `json:"l3,omitempty"`
	Slot   int     `json:"slot"`
	Arg    *Arg    `json:"arg,omitempty"`
	Err    bool    `json:"err"`
	Flags  *Flags  `json:"flags,omitempty"`
	AFlags *Flags  `json:"aflags,omitempty"`
	Dev    string  `json:"dev"`
	Obs    *Obs    `json:"obs,omitempty"`
	Ids    []int   `json:"ids,omitempty"`
	Main   []int   `json:"main,omitempty"`
	Rest   [][]int `json:"rest,omitempty"`
	Fc     *FC     `json:"fc,omitempty"`
	Res    *FinRes `json:"res,omitempty"`
}

// Real is what the real code did in one step.
type Real struct {
	Panic    bool
	PanicMsg string
	Err      bool
	Flags    Flags
	Obs      Obs
	Ids      []int
	Fin      FinRes
}

var panicDevs = map[string]bool{"simple-short-keyid": true, "bls-undecodable-sig": true,
	"bls-finalize-double": true, "bls-validate-decode": true}

// ---------------------------------------------------------------------------------------------
// World: the real objects.

type World struct {
	ad   Adapter
	g    *Geo
	p    [2]gcrypto.CommonMessageSignatureProof
	has1 bool
	rng  *rand.Rand
}

func NewWorld(ad Adapter, seed int64) *World {
	w := &World{ad: ad, g: NewGeo(ad.K(), ad.Scheme()), rng: rand.New(rand.NewSource(seed))}
	w.p[0] = ad.NewProof("main", "h")
	return w
}

func bitsOf(p gcrypto.CommonMessageSignatureProof) []int {
	out := []int{}
	if p == nil {
		return out
	}
	var bs bitset.BitSet
	p.SignatureBitSet(&bs)
	for u, ok := bs.NextSet(0); ok; u, ok = bs.NextSet(u + 1) {
		out = append(out, int(u))
	}
	return out
}

func idsOf(sp gcrypto.SparseSignatureProof) []int {
	out := []int{}
	for _, s := range sp.Signatures {
		if len(s.KeyID) == 2 {
			out = append(out, int(binary.BigEndian.Uint16(s.KeyID)))
		} else {
			out = append(out, -1-len(s.KeyID))
		}
	}
	sort.Ints(out)
	return out
}

func (w *World) obs() Obs {
	o := Obs{B0: bitsOf(w.p[0]), T0: idsOf(w.p[0].AsSparse()), B1: []int{}, T1: []int{}, Has1: w.has1}
	if w.has1 {
		o.B1 = bitsOf(w.p[1])
		o.T1 = idsOf(w.p[1].AsSparse())
	}
	return o
}

func be16(n int) []byte {
	b := make([]byte, 2)
	binary.BigEndian.PutUint16(b, uint16(n))
	return b
}

func (w *World) keyID(e Entry) []byte {
	switch e.Kc {
	case "id":
		return be16(e.N)
	case "len0":
		return []byte{}
	case "len1":
		return []byte{byte(w.rng.Intn(4))}
	case "len3":
		return append(be16(e.N), byte(w.rng.Intn(256)))
	case "oor":
		if w.rng.Intn(3) == 0 {
			return be16(0xffff - w.rng.Intn(4))
		}
		return be16(w.g.NN + w.rng.Intn(3))
	}
	panic("bad key class " + e.Kc)
}

func (w *World) sparseOf(a *Arg) gcrypto.SparseSignatureProof {
	sp := gcrypto.SparseSignatureProof{PubKeyHash: "h"}
	if !a.HashOK {
		sp.PubKeyHash = "wrong"
	}
	for _, e := range a.Es {
		var sig []byte
		if e.Kc == "id" || e.Kc == "len3" {
			sig = w.ad.Sig(e.N, "main", e.Corr)
		} else {
			sig = w.ad.Sig(0, "main", "ok")
		}
		sp.Signatures = append(sp.Signatures, gcrypto.SparseSignature{KeyID: w.keyID(e), Sig: sig})
	}
	return sp
}

// Setup brings slot 0 into the closed node set `nodes` through the public API
// (one valid sparse entry per node, ascending).
func (w *World) Setup(nodes []int) error {
	if len(nodes) == 0 {
		return nil
	}
	a := &Arg{HashOK: true}
	for _, n := range nodes {
		a.Es = append(a.Es, Entry{Kc: "id", N: n, Corr: "ok"})
	}
	res := w.p[0].MergeSparse(w.sparseOf(a))
	if !res.AllValidSignatures {
		return fmt.Errorf("setup %v: not all valid", nodes)
	}
	return nil
}

func mergeFlags(r gcrypto.SignatureProofMergeResult) Flags {
	return Flags{Av: r.AllValidSignatures, Inc: r.IncreasedSignatures, Ss: r.WasStrictSuperset}
}

// Exec performs one step on the real objects; panics are recovered and reported.
func (w *World) Exec(st *Step, out *vc.Out) (r Real) {
	defer func() {
		if x := recover(); x != nil {
			r.Panic = true
			r.PanicMsg = fmt.Sprint(x)
			r.Obs = w.safeObs()
		}
	}()
	switch st.Op {
	case "add":
		key, sig := w.ad.PubKey(w.ad.K()), w.ad.ForeignSig("main")
		if st.Arg.Key >= 0 {
			key, sig = w.ad.PubKey(st.Arg.Key), w.ad.Sig(st.Arg.Key, "main", st.Arg.Corr)
		}
		r.Err = w.p[st.Slot].AddSignature(sig, key) != nil
	case "sparse":
		r.Flags = mergeFlags(w.p[st.Slot].MergeSparse(w.sparseOf(st.Arg)))
	case "merge":
		msg, hash := "main", "h"
		if st.Arg.Match == "msg" {
			msg = "other"
		}
		if st.Arg.Match == "hash" {
			hash = "wrong"
		}
		other := w.ad.Forge(msg, hash, st.Arg.O, st.Arg.B, st.Arg.Bk)
		before := bitsOf(other)
		r.Flags = mergeFlags(w.p[st.Slot].Merge(other))
		if fmt.Sprint(before) != fmt.Sprint(bitsOf(other)) {
			// "without modifying other"
			r.Err = true
		}
	case "clone":
		w.p[1] = w.p[0].Clone()
		w.has1 = true
	case "rebuild":
		sp := w.p[st.Slot].AsSparse()
		r.Ids = idsOf(sp)
		np := w.ad.NewProof("main", "h")
		r.Flags = mergeFlags(np.MergeSparse(sp))
		w.p[st.Slot] = np
	case "fin":
		r.Fin = w.fin(st)
	default:
		panic("unknown op " + st.Op)
	}
	r.Obs = w.obs()
	return r
}

func (w *World) safeObs() (o Obs) {
	defer func() {
		if recover() != nil {
			o = Obs{}
		}
	}()
	return w.obs()
}

var blockHash = map[string]string{"main": "H0", "rest1": "H1", "rest2": "H2"}

func decodeFinID(b []byte) (cnt, idx int) {
	if len(b) < 2 {
		return -1, -1
	}
	return int(binary.BigEndian.Uint16(b[:2])), int(new(big.Int).SetBytes(b[2:]).Int64())
}

func encodeFinID(cnt, idx int) []byte {
	b := be16(cnt)
	if idx > 0 {
		b = append(b, big.NewInt(int64(idx)).Bytes()...)
	}
	return b
}

func flip(sig []byte) []byte {
	c := append([]byte(nil), sig...)
	if len(c) > 5 {
		c[5] ^= 0x10
	}
	return c
}

func (w *World) fin(st *Step) FinRes {
	var res FinRes
	scheme := w.ad.SchemeImpl()
	rests := make([]gcrypto.CommonMessageSignatureProof, 0, len(st.Rest))
	hashes := map[string]string{string(w.ad.MsgBytes("main")): blockHash["main"]}
	for i, R := range st.Rest {
		name := fmt.Sprintf("rest%d", i+1)
		np := w.ad.NewProof(name, "h")
		for _, j := range R {
			if err := np.AddSignature(w.ad.AggSig([]int{j}, name), w.ad.PubKey(j)); err != nil {
				panic(fmt.Errorf("harness: building rest proof: %w", err))
			}
		}
		rests = append(rests, np)
		hashes[string(w.ad.MsgBytes(name))] = blockHash[name]
	}
	fin := scheme.Finalize(w.p[0], rests)

	// key ids written by the BLS scheme (before corruption)
	if w.ad.Scheme() == "bls" {
		if len(fin.MainSignatures) == 1 {
			c, x := decodeFinID(fin.MainSignatures[0].KeyID)
			res.Ids = append(res.Ids, FinID{Blk: 0, Cnt: c, Idx: x})
		}
		for i := range st.Rest {
			ss := fin.Rest[string(w.ad.MsgBytes(fmt.Sprintf("rest%d", i+1)))]
			if len(ss) == 1 {
				c, x := decodeFinID(ss[0].KeyID)
				res.Ids = append(res.Ids, FinID{Blk: i + 1, Cnt: c, Idx: x})
			}
		}
	}

	// deep copy, then corrupt
	cp := gcrypto.FinalizedCommonMessageSignatureProof{Keys: fin.Keys, PubKeyHash: fin.PubKeyHash,
		MainMessage: append([]byte(nil), fin.MainMessage...)}
	cpSigs := func(in []gcrypto.SparseSignature) []gcrypto.SparseSignature {
		o := make([]gcrypto.SparseSignature, len(in))
		for i, s := range in {
			o[i] = gcrypto.SparseSignature{KeyID: append([]byte{}, s.KeyID...), Sig: append([]byte{}, s.Sig...)}
		}
		return o
	}
	cp.MainSignatures = cpSigs(fin.MainSignatures)
	if fin.Rest != nil {
		cp.Rest = map[string][]gcrypto.SparseSignature{}
		for k, v := range fin.Rest {
			cp.Rest[k] = cpSigs(v)
		}
	}
	r1 := string(w.ad.MsgBytes("rest1"))
	switch st.Fc.Kind {
	case "none":
	case "main-sig-flip":
		cp.MainSignatures[0].Sig = flip(cp.MainSignatures[0].Sig)
	case "main-sig-othermsg":
		if w.ad.Scheme() == "simple" {
			n, _ := decodeFinID(cp.MainSignatures[0].KeyID)
			cp.MainSignatures[0].Sig = w.ad.AggSig([]int{n}, "other")
		} else {
			cp.MainSignatures[0].Sig = w.ad.AggSig(st.Main, "other")
		}
	case "keyid-len0":
		cp.MainSignatures[0].KeyID = []byte{}
	case "keyid-len1":
		cp.MainSignatures[0].KeyID = cp.MainSignatures[0].KeyID[:1]
	case "keyid-oor":
		cp.MainSignatures[0].KeyID = be16(w.ad.K())
	case "k-zero":
		cp.MainSignatures[0].KeyID = []byte{0, 0}
	case "k-big", "comb-bound", "comb-next":
		cp.MainSignatures[0].KeyID = encodeFinID(st.Fc.Cnt, st.Fc.Idx)
	case "main-extra-sig":
		cp.MainSignatures = append(cp.MainSignatures, cpSigs(cp.MainSignatures[:1])...)
	case "rest-sig-flip":
		cp.Rest[r1][0].Sig = flip(cp.Rest[r1][0].Sig)
	case "rest-keyid-len1":
		cp.Rest[r1][0].KeyID = cp.Rest[r1][0].KeyID[:1]
	case "rest-k-zero":
		cp.Rest[r1][0].KeyID = []byte{0, 0}
	default:
		panic("harness: unknown finalized corruption " + st.Fc.Kind)
	}

	m, uniq := scheme.ValidateFinalizedProof(cp, hashes)
	res.Nilmap = m == nil
	res.Uniq = uniq
	if m != nil {
		names := []string{"main", "rest1", "rest2"}[:1+len(st.Rest)]
		for _, nm := range names {
			bs, ok := m[blockHash[nm]]
			if !ok || bs == nil {
				res.Sets = append(res.Sets, []int{-1})
				continue
			}
			s := []int{}
			for u, ok := bs.NextSet(0); ok; u, ok = bs.NextSet(u + 1) {
				s = append(s, int(u))
			}
			res.Sets = append(res.Sets, s)
		}
	}
	return res
}

// ---------------------------------------------------------------------------------------------
// Classification.

func site(scheme, op string) string {
	t := "gcrypto.SimpleCommonMessageSignatureProof"
	sc := "gcrypto.SimpleCommonMessageSignatureProofScheme"
	if scheme == "bls" {
		t, sc = "gblsminsig.SignatureProof", "gblsminsig.SignatureProofScheme"
	}
	switch op {
	case "add":
		return t + ".AddSignature"
	case "sparse":
		return t + ".MergeSparse"
	case "merge":
		return t + ".Merge"
	case "clone":
		return t + ".Clone"
	case "rebuild":
		return t + ".AsSparse+MergeSparse"
	case "fin":
		return sc + ".Finalize+ValidateFinalizedProof"
	}
	return t
}

// InputClass is the abstract class of the input of a step (part of a finding's fingerprint).
func InputClass(st *Step) string {
	switch st.Op {
	case "add":
		if st.Arg.Key < 0 {
			return "add:unknown-key"
		}
		return "add:" + st.Arg.Corr
	case "sparse":
		if !st.Arg.HashOK {
			return "sparse:wrong-pubkey-hash"
		}
		set := map[string]bool{}
		for _, e := range st.Arg.Es {
			set[e.Kc+"/"+e.Corr] = true
		}
		l := []string{}
		for k := range set {
			l = append(l, k)
		}
		sort.Strings(l)
		return "sparse:" + strings.Join(l, ",")
	case "merge":
		bad := "none"
		if len(st.Arg.B) > 0 {
			bad = st.Arg.Bk
		}
		return "merge:match=" + st.Arg.Match + ",bad=" + bad
	case "fin":
		dbl := overlaps(st.Main, st.Rest)
		return fmt.Sprintf("fin:%s,rest=%d,double=%v", st.Fc.Kind, len(st.Rest), dbl)
	}
	return st.Op
}

func overlaps(m []int, rest [][]int) bool {
	seen := listMask(m)
	for _, r := range rest {
		rm := listMask(r)
		if seen&rm != 0 {
			return true
		}
		seen |= rm
	}
	return false
}

func eqInts(a, b []int) bool {
	if len(a) != len(b) {
		return false
	}
	for i := range a {
		if a[i] != b[i] {
			return false
		}
	}
	return true
}

func subset(a, b []int) bool { return listMask(a)&^listMask(b) == 0 }

type Reporter struct {
	Out     *vc.Out
	mu      sync.Mutex
	Counts  map[string]int
	OpsSeen map[string]int
	States  map[string]struct{}
}

func NewReporter(out *vc.Out) *Reporter {
	return &Reporter{Out: out, Counts: map[string]int{}, OpsSeen: map[string]int{}, States: map[string]struct{}{}}
}

func (rp *Reporter) violation(pred, scheme string, st *Step, class, what string, beh any, idx int, r *Real) {
	rp.mu.Lock()
	rp.Counts["violation"]++
	rp.mu.Unlock()
	rp.Out.Emit(vc.M{"kind": "violation", "predicate": pred, "site": site(scheme, st.Op), "class": class,
		"what": what, "scheme": scheme, "step": idx, "behaviour": beh, "real": r})
}

func (rp *Reporter) mismatch(scheme string, st *Step, what string, beh any, idx int, r *Real) {
	rp.mu.Lock()
	rp.Counts["mismatch"]++
	rp.mu.Unlock()
	rp.Out.Emit(vc.M{"kind": "mismatch", "site": site(scheme, st.Op), "class": InputClass(st), "what": what,
		"scheme": scheme, "step": idx, "behaviour": beh, "real": r})
}

// Check compares what the real code did with the expectation of the step and evaluates the named rules
// on the REAL observable.  pre is the real observable before the step.  Returns false when the behaviour
// must stop (panic).
func (rp *Reporter) Check(scheme string, st *Step, pre Obs, r *Real, beh any, idx int) bool {
	cls := InputClass(st)
	if r.Panic {
		c := "unexpected:" + cls
		if panicDevs[st.Dev] {
			c = st.Dev
		}
		rp.violation("NoPanic", scheme, st, c, fmt.Sprintf("%s panicked on %s: %s", site(scheme, st.Op), cls, r.PanicMsg), beh, idx, r)
		return false
	}
	exp := st.Obs
	// the other proof object must not move (clone independent of its origin)
	tb, tbPre, tbExp := r.Obs.B0, pre.B0, exp.B0
	ob, obPre := r.Obs.B1, pre.B1
	if st.Slot == 1 {
		tb, tbPre, tbExp = r.Obs.B1, pre.B1, exp.B1
		ob, obPre = r.Obs.B0, pre.B0
	}
	if st.Op == "clone" {
		if !eqInts(r.Obs.B1, pre.B0) || !eqInts(r.Obs.B0, pre.B0) {
			rp.violation("CloneIndependent", scheme, st, cls, fmt.Sprintf("after Clone: origin %v clone %v, origin before %v", r.Obs.B0, r.Obs.B1, pre.B0), beh, idx, r)
		}
	} else if !eqInts(ob, obPre) {
		rp.violation("CloneIndependent", scheme, st, cls, fmt.Sprintf("%s on proof %d changed the other proof object: %v -> %v", st.Op, st.Slot, obPre, ob), beh, idx, r)
	}
	// ... nor may the sparse form of the other proof object
	if st.Op != "clone" {
		ot, otPre := r.Obs.T1, pre.T1
		if st.Slot == 1 {
			ot, otPre = r.Obs.T0, pre.T0
		}
		if !eqInts(ot, otPre) && eqInts(ob, obPre) {
			rp.violation("CloneIndependent", scheme, st, cls, fmt.Sprintf("%s on proof %d changed the sparse form of the other proof object: key ids %v -> %v", st.Op, st.Slot, otPre, ot), beh, idx, r)
		}
	}
	if !subset(tbPre, tb) {
		rp.violation("Monotone", scheme, st, cls, fmt.Sprintf("signer set shrank: %v -> %v", tbPre, tb), beh, idx, r)
	}
	if !eqInts(tb, tbExp) {
		switch {
		case st.Op == "rebuild":
			rp.violation("SparseRoundTrip", scheme, st, cls, fmt.Sprintf("proof rebuilt from its sparse form has signers %v, had %v", tb, tbPre), beh, idx, r)
		case !subset(tb, tbExp):
			rp.violation("NoBitForNonVerifying", scheme, st, cls, fmt.Sprintf("signer set %v after %s, the verified union is %v (before: %v)", tb, cls, tbExp, tbPre), beh, idx, r)
		default:
			rp.violation("UnionOfVerified", scheme, st, cls, fmt.Sprintf("signer set %v after %s, the verified union is %v (before: %v)", tb, cls, tbExp, tbPre), beh, idx, r)
		}
	}
	switch st.Op {
	case "add":
		if r.Err != st.Err {
			rp.violation("FlagsMatch", scheme, st, cls, fmt.Sprintf("AddSignature error=%v, expected error=%v", r.Err, st.Err), beh, idx, r)
		}
	case "sparse", "merge", "rebuild":
		if st.Op == "merge" && r.Err {
			rp.violation("CloneIndependent", scheme, st, cls, "Merge modified the other proof", beh, idx, r)
		}
		if r.Flags != *st.Flags {
			if st.Dev == "bls-sparse-strict-todo" && st.AFlags != nil && r.Flags == *st.AFlags {
				rp.violation("FlagsMatch", scheme, st, st.Dev, fmt.Sprintf("MergeSparse reported %+v, what happened is %+v", r.Flags, *st.Flags), beh, idx, r)
			} else {
				rp.violation("FlagsMatch", scheme, st, cls, fmt.Sprintf("%s reported %+v, what happened is %+v", st.Op, r.Flags, *st.Flags), beh, idx, r)
			}
		}
		if st.Op == "rebuild" && st.Ids != nil && !eqInts(r.Ids, sortedCopy(st.Ids)) {
			rp.mismatch(scheme, st, fmt.Sprintf("AsSparse key ids %v, spec %v", r.Ids, st.Ids), beh, idx, r)
		}
	case "fin":
		e := st.Res
		bad := ""
		switch {
		case r.Fin.Nilmap != e.Nilmap || r.Fin.Uniq != e.Uniq:
			bad = fmt.Sprintf("validated (nil map=%v, unique=%v), expected (nil map=%v, unique=%v)", r.Fin.Nilmap, r.Fin.Uniq, e.Nilmap, e.Uniq)
		case !e.Nilmap:
			for i := range e.Sets {
				if i >= len(r.Fin.Sets) {
					bad = "missing block"
					break
				}
				got := r.Fin.Sets[i]
				if len(got) == 1 && got[0] == -1 {
					if e.Exact {
						bad = fmt.Sprintf("block %d missing from the validated map", i)
					}
					continue
				}
				if !eqInts(got, sortedCopy(e.Sets[i])) {
					bad = fmt.Sprintf("block %d validates to signers %v, was built from %v", i, got, e.Sets[i])
				}
			}
		}
		if bad != "" {
			rp.violation("FinalizeRoundTrip", scheme, st, cls, bad, beh, idx, r)
		} else if len(e.Ids) > 0 {
			want := append([]FinID(nil), e.Ids...)
			got := append([]FinID(nil), r.Fin.Ids...)
			sort.Slice(want, func(i, j int) bool { return want[i].Blk < want[j].Blk })
			sort.Slice(got, func(i, j int) bool { return got[i].Blk < got[j].Blk })
			if fmt.Sprint(want) != fmt.Sprint(got) {
				rp.mismatch(scheme, st, fmt.Sprintf("finalized key ids %v, spec %v", got, want), beh, idx, r)
			}
		}
	}
	// details the property does not name: sparse key ids (tree nodes)
	if exp.T0 != nil && (!eqInts(r.Obs.T0, sortedCopy(exp.T0)) || (r.Obs.Has1 && !eqInts(r.Obs.T1, sortedCopy(exp.T1)))) && eqInts(tb, tbExp) {
		rp.mismatch(scheme, st, fmt.Sprintf("sparse key ids %v / %v, spec %v / %v", r.Obs.T0, r.Obs.T1, exp.T0, exp.T1), beh, idx, r)
	}
	if r.Obs.Has1 != exp.Has1 {
		rp.mismatch(scheme, st, "clone presence differs", beh, idx, r)
	}
	return true
}

func sortedCopy(a []int) []int {
	c := append([]int{}, a...)
	sort.Ints(c)
	return c
}

// ---------------------------------------------------------------------------------------------
// Trace events for SigProofTrace.tla.

func traceEvent(st *Step, r *Real) vc.M {
	ev := vc.M{"ev": st.Op, "slot": st.Slot, "panic": r.Panic,
		"b0": r.Obs.B0, "b1": r.Obs.B1, "t0": r.Obs.T0, "t1": r.Obs.T1, "has1": r.Obs.Has1}
	nz := func(a []int) []int {
		if a == nil {
			return []int{}
		}
		return a
	}
	ev["b0"], ev["b1"], ev["t0"], ev["t1"] = nz(r.Obs.B0), nz(r.Obs.B1), nz(r.Obs.T0), nz(r.Obs.T1)
	fl := vc.M{"av": r.Flags.Av, "inc": r.Flags.Inc, "ss": r.Flags.Ss}
	switch st.Op {
	case "add":
		ev["arg"] = vc.M{"key": st.Arg.Key, "corr": st.Arg.Corr}
		ev["err"] = r.Err
	case "sparse":
		es := []vc.M{}
		for _, e := range st.Arg.Es {
			es = append(es, vc.M{"kc": e.Kc, "n": e.N, "corr": e.Corr})
		}
		ev["arg"] = vc.M{"hashOK": st.Arg.HashOK, "es": es}
		ev["flags"] = fl
	case "merge":
		ev["arg"] = vc.M{"O": nz(st.Arg.O), "B": nz(st.Arg.B), "bk": st.Arg.Bk, "match": st.Arg.Match}
		ev["flags"] = fl
	case "rebuild":
		ev["ids"] = nz(r.Ids)
		ev["flags"] = fl
	case "fin":
		rest := [][]int{}
		for _, x := range st.Rest {
			rest = append(rest, nz(x))
		}
		sets := [][]int{}
		for _, x := range r.Fin.Sets {
			sets = append(sets, nz(x))
		}
		ids := []vc.M{}
		for _, x := range r.Fin.Ids {
			ids = append(ids, vc.M{"blk": x.Blk, "cnt": x.Cnt, "idx": x.Idx})
		}
		ev["main"] = nz(st.Main)
		ev["rest"] = rest
		ev["fc"] = vc.M{"kind": st.Fc.Kind, "cnt": st.Fc.Cnt, "idx": st.Fc.Idx}
		ev["res"] = vc.M{"nilmap": r.Fin.Nilmap, "uniq": r.Fin.Uniq, "sets": sets, "ids": ids}
	}
	return ev
}

type TraceSink struct {
	mu  sync.Mutex
	out *vc.Out
}

func NewTraceSink(out *vc.Out) *TraceSink { return &TraceSink{out: out} }

func (t *TraceSink) Write(evs []vc.M) {
	t.mu.Lock()
	for _, e := range evs {
		t.out.Emit(e)
	}
	t.mu.Unlock()
}

// ---------------------------------------------------------------------------------------------
// Replay of one TLC behaviour.

// ProbeLen3 reports whether the real MergeSparse accepts a 3-byte key id whose first two bytes name a
// candidate key (a detail the property does not name; the spec has both variants).
func ProbeLen3(ad Adapter) (acc bool) {
	defer func() {
		if recover() != nil {
			acc = false
		}
	}()
	w := NewWorld(ad, 1)
	w.p[0].MergeSparse(w.sparseOf(&Arg{HashOK: true, Es: []Entry{{Kc: "len3", N: 0, Corr: "ok"}}}))
	return len(bitsOf(w.p[0])) > 0
}

// RunBehaviour replays beh (setup step first) on fresh real objects.
func RunBehaviour(ad Adapter, beh []Step, seed int64, rp *Reporter, ts *TraceSink, wantTrace bool) {
	scheme := ad.Scheme()
	w := NewWorld(ad, seed)
	setup := &beh[0]
	evs := []vc.M{{"ev": "reset", "k": ad.K(), "sch": scheme, "l3": setup.L3, "nodes": append([]int{}, setup.Nodes...)}}
	func() {
		defer func() {
			if x := recover(); x != nil {
				rp.mismatch(scheme, setup, fmt.Sprintf("setup panicked: %v", x), beh, 0, nil)
			}
		}()
		if err := w.Setup(setup.Nodes); err != nil {
			rp.mismatch(scheme, setup, err.Error(), beh, 0, nil)
		}
	}()
	pre := w.obs()
	rp.noteState(scheme, ad.K(), pre)
	for i := 1; i < len(beh); i++ {
		st := &beh[i]
		r := w.Exec(st, rp.Out)
		evs = append(evs, traceEvent(st, &r))
		rp.noteOp(scheme, st)
		cont := rp.Check(scheme, st, pre, &r, beh, i)
		if !cont {
			break
		}
		pre = r.Obs
		rp.noteState(scheme, ad.K(), pre)
	}
	if wantTrace {
		ts.Write(evs)
	}
}

func (rp *Reporter) noteOp(scheme string, st *Step) {
	rp.mu.Lock()
	rp.OpsSeen[st.Op]++
	rp.Counts["steps"]++
	rp.mu.Unlock()
}

func (rp *Reporter) noteState(scheme string, k int, o Obs) {
	key := fmt.Sprintf("%s/%d/%v/%v/%v/%v", scheme, k, o.B0, o.T0, o.B1, o.T1)
	rp.mu.Lock()
	rp.States[key] = struct{}{}
	rp.mu.Unlock()
}

// ---------------------------------------------------------------------------------------------
// Reference evaluation of a step (transliteration of ApplyAdd / ApplySparse / ApplyMerge / Rebuild /
// ApplyFin) used by the random driver to fill in `exp`; SigProofTrace.tla re-validates every logged step.

type Model struct {
	g    *Geo
	l3   bool // simple scheme reads a 3-byte key id as its first two bytes (probed on the real code)
	h    [2]uint64
	has1 bool
}

func binom(n, r int) int {
	if r < 0 || r > n {
		return 0
	}
	c := 1
	for i := 1; i <= r; i++ {
		c = c * (n - r + i) / i
	}
	return c
}

// combIndex is the rank of the k-subset S of 0..n-1 in the combinatorial number system used by
// calculateCombinationIndex (lexicographic rank of the sorted combination).
func combIndex(n int, S []int) int {
	q := sortedCopy(S)
	m, idx, prev := len(q), 0, -1
	for t, x := range q {
		for j := prev + 1; j < x; j++ {
			idx += binom(n-j-1, m-t-1)
		}
		prev = x
	}
	return idx
}

func (m *Model) decoded(e Entry) int {
	switch e.Kc {
	case "id":
		return e.N
	case "len3":
		if m.g.Scheme == "simple" && m.l3 {
			return e.N
		}
		return -1
	case "oor":
		return -1
	}
	if m.g.Scheme == "simple" {
		return -2
	}
	return -1
}

func (m *Model) obs() *Obs {
	o := &Obs{B0: maskList(m.g.Bits(m.h[0])), T0: append([]int{}, m.g.Tops(m.h[0])...), B1: []int{}, T1: []int{}, Has1: m.has1}
	if m.has1 {
		o.B1 = maskList(m.g.Bits(m.h[1]))
		o.T1 = append([]int{}, m.g.Tops(m.h[1])...)
	}
	return o
}

// Fill computes exp / dev of st on the model state and advances the model.  Returns true when the
// shipped code is expected to panic (behaviour ends).
func (m *Model) Fill(st *Step) bool {
	g := m.g
	h := m.h[st.Slot]
	st.Dev = ""
	switch st.Op {
	case "add":
		if st.Arg.Key >= 0 && st.Arg.Corr == "ok" {
			m.h[st.Slot] = g.Cascade(h, st.Arg.Key)
			st.Err = false
		} else {
			st.Err = true
		}
	case "sparse":
		fl := Flags{}
		nh := h
		dev := ""
		if st.Arg.HashOK {
			fl.Av = true
			var added uint32
			for _, e := range st.Arg.Es {
				d := m.decoded(e)
				switch {
				case d == -2:
					if dev == "" {
						dev = "simple-short-keyid"
					}
					fl.Av = false
				case d == -1:
					fl.Av = false
				case g.Scheme == "bls" && nh&(1<<uint(d)) != 0:
					if e.Corr == "garbage" && dev == "" {
						dev = "bls-undecodable-sig"
					}
					if e.Corr != "ok" {
						fl.Av = false
					} else {
						added |= g.Leaves[d]
					}
				case g.Leaves[d] != 0 && e.Corr == "ok":
					nh = g.Cascade(nh, d)
					added |= g.Leaves[d]
				default:
					fl.Av = false
				}
			}
			pb := g.Bits(h)
			fl.Inc = g.Bits(nh) != pb
			fl.Ss = added&pb == pb && added != pb
		}
		st.Flags = &fl
		af := fl
		if g.Scheme == "bls" {
			af.Ss = false
		}
		st.AFlags = &af
		if dev == "" && af != fl {
			dev = "bls-sparse-strict-todo"
		}
		st.Dev = dev
		m.h[st.Slot] = nh
	case "merge":
		fl := Flags{}
		nh := h
		if st.Arg.Match == "ok" {
			var oh uint64
			for _, i := range sortedCopy(st.Arg.O) {
				oh = g.Cascade(oh, i)
			}
			bm := listMask(st.Arg.B)
			fl.Av = true
			for _, t := range g.Tops(oh) {
				if g.Leaves[t]&bm != 0 {
					fl.Av = false
					continue
				}
				nh = g.Cascade(nh, t)
			}
			ob, pb := g.Bits(oh), g.Bits(h)
			fl.Inc = g.Bits(nh) != pb
			fl.Ss = ((ob == 0 && pb == 0) || (ob&pb == pb && ob != pb)) && fl.Av
		}
		st.Flags, st.AFlags = &fl, &fl
		m.h[st.Slot] = nh
	case "clone":
		m.h[1] = m.h[0]
		m.has1 = true
	case "rebuild":
		ids := g.Tops(h)
		var nh uint64
		for _, t := range ids {
			nh = g.Cascade(nh, t)
		}
		fl := Flags{Av: true, Inc: len(ids) > 0, Ss: len(ids) > 0}
		af := fl
		if g.Scheme == "bls" {
			af.Ss = false
		}
		st.Ids = append([]int{}, ids...)
		st.Flags, st.AFlags = &fl, &af
		if af != fl {
			st.Dev = "bls-sparse-strict-todo"
		}
		m.h[st.Slot] = nh
	case "fin":
		dbl := overlaps(st.Main, st.Rest)
		res := &FinRes{}
		if st.Fc.Kind != "none" {
			res.Nilmap = true
		} else {
			res.Uniq = !dbl
			res.Exact = g.Scheme == "simple" || !dbl
			res.Sets = append([][]int{append([]int{}, st.Main...)}, st.Rest...)
			if g.Scheme == "bls" && !dbl {
				res.Ids = blsIds(g.K, st.Main, st.Rest)
			}
		}
		st.Res = res
		switch {
		case g.Scheme == "bls" && dbl:
			st.Dev = "bls-finalize-double"
		case g.Scheme == "bls" && (st.Fc.Kind == "k-zero" || st.Fc.Kind == "comb-bound" || st.Fc.Kind == "rest-k-zero"):
			st.Dev = "bls-validate-decode"
		case g.Scheme == "simple" && (st.Fc.Kind == "keyid-len0" || st.Fc.Kind == "keyid-len1" || st.Fc.Kind == "rest-keyid-len1"):
			st.Dev = "simple-short-keyid"
		}
	}
	st.Obs = m.obs()
	return panicDevs[st.Dev]
}

func blsIds(n int, main []int, rest [][]int) []FinID {
	ids := []FinID{{Blk: 0, Cnt: len(main), Idx: combIndex(n, main)}}
	ord := make([]int, len(rest))
	for i := range ord {
		ord[i] = i
	}
	sort.SliceStable(ord, func(a, b int) bool { return len(rest[ord[a]]) > len(rest[ord[b]]) })
	used := listMask(main)
	for _, i := range ord {
		red := []int{}
		for _, x := range rest[i] {
			c := 0
			for y := 0; y < x; y++ {
				if used&(1<<uint(y)) == 0 {
					c++
				}
			}
			red = append(red, c)
		}
		nr := 0
		for y := 0; y < n; y++ {
			if used&(1<<uint(y)) == 0 {
				nr++
			}
		}
		ids = append(ids, FinID{Blk: i + 1, Cnt: len(rest[i]), Idx: combIndex(nr, red)})
		used |= listMask(rest[i])
	}
	return ids
}

// ---------------------------------------------------------------------------------------------
// Seeded random behaviours.

func randSubset(rng *rand.Rand, k int, allowEmpty bool) []int {
	for {
		s := []int{}
		p := rng.Float64()
		for i := 0; i < k; i++ {
			if rng.Float64() < p {
				s = append(s, i)
			}
		}
		if len(s) > 0 || allowEmpty {
			return s
		}
	}
}

var allCorrs = []string{"ok", "ok", "ok", "othersigner", "othermsg", "bitflip", "garbage"}

func randEntry(rng *rand.Rand, g *Geo) Entry {
	switch x := rng.Intn(20); {
	case x == 0:
		return Entry{Kc: "len0", Corr: "ok"}
	case x == 1:
		return Entry{Kc: "len1", Corr: "ok"}
	case x == 2:
		return Entry{Kc: "oor", Corr: "ok"}
	case x == 3:
		return Entry{Kc: "len3", N: rng.Intn(g.NN), Corr: []string{"ok", "bitflip"}[rng.Intn(2)]}
	}
	return Entry{Kc: "id", N: rng.Intn(g.NN), Corr: allCorrs[rng.Intn(len(allCorrs))]}
}

func randFC(rng *rand.Rand, g *Geo, main []int, rest [][]int) *FC {
	if len(rest) > 1 || overlaps(main, rest) || rng.Intn(2) == 0 {
		return &FC{Kind: "none"}
	}
	kinds := []string{"main-sig-flip", "main-sig-othermsg", "keyid-len0", "keyid-len1"}
	if len(rest) > 0 {
		kinds = append(kinds, "rest-sig-flip", "rest-keyid-len1")
	}
	if g.Scheme == "simple" {
		kinds = append(kinds, "keyid-oor")
	} else {
		kinds = append(kinds, "k-zero", "k-big", "comb-bound", "main-extra-sig")
		if binom(g.K, len(main)) > 1 {
			kinds = append(kinds, "comb-next")
		}
		if len(rest) > 0 {
			kinds = append(kinds, "rest-k-zero")
		}
	}
	fc := &FC{Kind: kinds[rng.Intn(len(kinds))]}
	switch fc.Kind {
	case "k-big":
		fc.Cnt = g.K + 1
	case "comb-bound":
		fc.Cnt, fc.Idx = len(main), binom(g.K, len(main))
	case "comb-next":
		fc.Cnt, fc.Idx = len(main), (combIndex(g.K, main)+1)%binom(g.K, len(main))
	}
	return fc
}

// RandomBehaviour generates, executes and checks one behaviour of up to nOps steps.
func RandomBehaviour(ad Adapter, l3 bool, rng *rand.Rand, nOps int, rp *Reporter, ts *TraceSink) {
	scheme := ad.Scheme()
	w := NewWorld(ad, rng.Int63())
	m := &Model{g: w.g, l3: l3}
	beh := []Step{{Op: "setup", K: ad.K(), Sch: scheme, L3: l3, Nodes: []int{}}}
	evs := []vc.M{{"ev": "reset", "k": ad.K(), "sch": scheme, "l3": l3, "nodes": []int{}}}
	pre := w.obs()
	for i := 1; i <= nOps; i++ {
		st := Step{}
		slot := 0
		if m.has1 && rng.Intn(2) == 0 {
			slot = 1
		}
		st.Slot = slot
		switch x := rng.Intn(20); {
		case x < 4:
			st.Op = "add"
			st.Arg = &Arg{Key: rng.Intn(ad.K()+1) - 1, Corr: []string{"ok", "ok", "ok", "othersigner", "othermsg", "bitflip"}[rng.Intn(6)]}
			if st.Arg.Key < 0 {
				st.Arg.Corr = "ok"
			}
		case x < 10:
			st.Op = "sparse"
			st.Arg = &Arg{HashOK: rng.Intn(12) != 0, Es: []Entry{}}
			for n := rng.Intn(4); n > 0; n-- {
				st.Arg.Es = append(st.Arg.Es, randEntry(rng, w.g))
			}
		case x < 14:
			st.Op = "merge"
			st.Arg = &Arg{O: randSubset(rng, ad.K(), true), B: []int{}, Bk: "none", Match: "ok"}
			switch y := rng.Intn(10); {
			case y == 0:
				st.Arg.Match = "msg"
			case y == 1:
				st.Arg.Match = "hash"
			case y < 5 && len(st.Arg.O) > 0:
				st.Arg.B = []int{st.Arg.O[rng.Intn(len(st.Arg.O))]}
				st.Arg.Bk = []string{"othersigner", "othermsg"}[rng.Intn(2)]
			}
		case x < 15:
			st.Op, st.Slot = "clone", 0
		case x < 17:
			st.Op = "rebuild"
		default:
			if m.g.Bits(m.h[0]) == 0 {
				st.Op = "rebuild"
				break
			}
			st.Op, st.Slot = "fin", 0
			st.Main = maskList(m.g.Bits(m.h[0]))
			st.Rest = [][]int{}
			used := listMask(st.Main)
			for n := rng.Intn(3); n > 0; n-- {
				var r []int
				if rng.Intn(4) == 0 {
					r = randSubset(rng, ad.K(), false) // may double sign
				} else {
					for j := 0; j < ad.K(); j++ {
						if used&(1<<uint(j)) == 0 && rng.Intn(2) == 0 {
							r = append(r, j)
						}
					}
				}
				if len(r) == 0 {
					continue
				}
				used |= listMask(r)
				st.Rest = append(st.Rest, r)
			}
			st.Fc = randFC(rng, m.g, st.Main, st.Rest)
		}
		m.Fill(&st)
		beh = append(beh, st)
		r := w.Exec(&beh[i], rp.Out)
		evs = append(evs, traceEvent(&beh[i], &r))
		rp.noteOp(scheme, &beh[i])
		if !rp.Check(scheme, &beh[i], pre, &r, beh, i) {
			break
		}
		// Idempotent: applying the same merge again on a clone changes nothing and reports no increase
		if st.Op == "sparse" || st.Op == "merge" {
			rp.idempotent(w, &beh[i], beh, i)
		}
		pre = r.Obs
		rp.noteState(scheme, ad.K(), pre)
	}
	ts.Write(evs)
}

func (rp *Reporter) idempotent(w *World, st *Step, beh any, idx int) {
	defer func() { _ = recover() }()
	c := w.p[st.Slot].Clone()
	before := bitsOf(c)
	w2 := &World{ad: w.ad, g: w.g, rng: w.rng}
	w2.p[0] = c
	s2 := *st
	s2.Slot = 0
	r := w2.Exec(&s2, rp.Out)
	if r.Panic {
		return
	}
	if !eqInts(before, r.Obs.B0) || r.Flags.Inc {
		rp.violation("Idempotent", w.ad.Scheme(), st, InputClass(st),
			fmt.Sprintf("repeating the merge changed the signer set %v -> %v (IncreasedSignatures=%v)", before, r.Obs.B0, r.Flags.Inc), beh, idx, &r)
	}
}

// ---------------------------------------------------------------------------------------------
// Driver shared by the per-scheme test functions.

// Drive replays the behaviours of `scheme` found in $VERIF_IN and runs the random driver.
// mk builds the adapter for a key-set size.
func Drive(scheme string, mk func(k int) Adapter) {
	out := vc.Open("VERIF_OUT")
	defer out.Close()
	trace := vc.Open("VERIF_TRACE")
	defer trace.Close()
	rp := NewReporter(out)
	ts := NewTraceSink(trace)
	seed := int64(vc.EnvInt("VERIF_SEED", 1))
	workers := vc.EnvInt("VERIF_WORKERS", 8)
	traceEvery := vc.EnvInt("VERIF_TRACE_EVERY", 10)

	var mu sync.Mutex
	ads := map[int]Adapter{}
	adapter := func(k int) Adapter {
		mu.Lock()
		defer mu.Unlock()
		if a, ok := ads[k]; ok {
			return a
		}
		a := mk(k)
		ads[k] = a
		return a
	}

	l3 := ProbeLen3(adapter(2))
	out.Emit(vc.M{"kind": "probe", "scheme": scheme, "len3_accepted": l3})

	// spec -> code
	type job struct {
		beh []Step
		idx int
	}
	jobs := make(chan job, 256)
	var wg sync.WaitGroup
	nBeh := 0
	for i := 0; i < workers; i++ {
		wg.Add(1)
		go func() {
			defer wg.Done()
			for j := range jobs {
				func() {
					defer func() {
						if x := recover(); x != nil {
							out.Emit(vc.M{"kind": "harness-panic", "scheme": scheme, "what": fmt.Sprint(x), "behaviour": j.beh})
						}
					}()
					RunBehaviour(adapter(j.beh[0].K), j.beh, seed+int64(j.idx), rp, ts, traceEvery > 0 && j.idx%traceEvery == 0)
				}()
			}
		}()
	}
	for _, raw := range vc.ReadNDJSON[json.RawMessage]("VERIF_IN") {
		var beh []Step
		if err := json.Unmarshal(raw, &beh); err != nil {
			panic(fmt.Errorf("bad behaviour: %w", err))
		}
		if len(beh) == 0 || beh[0].Sch != scheme || beh[0].L3 != l3 {
			continue // other scheme, or the variant of the spec the code under test does not have
		}
		jobs <- job{beh: beh, idx: nBeh}
		nBeh++
	}
	close(jobs)
	wg.Wait()

	// code -> spec: seeded random behaviours over larger key sets
	ks := []int{}
	for _, f := range strings.Split(strings.TrimSpace(getenv("VERIF_RANDOM_KS", "1,2,3,4,5,6,7,8,9")), ",") {
		var k int
		if _, err := fmt.Sscan(f, &k); err == nil && k > 0 {
			ks = append(ks, k)
		}
	}
	nRand := vc.EnvInt("VERIF_RANDOM", 200)
	nOps := vc.EnvInt("VERIF_RANDOM_OPS", 8)
	rjobs := make(chan int, 256)
	for i := 0; i < workers; i++ {
		wg.Add(1)
		go func() {
			defer wg.Done()
			for j := range rjobs {
				func() {
					defer func() {
						if x := recover(); x != nil {
							out.Emit(vc.M{"kind": "harness-panic", "scheme": scheme, "what": fmt.Sprint(x), "random": j})
						}
					}()
					rng := rand.New(rand.NewSource(seed*1000003 + int64(j)))
					RandomBehaviour(adapter(ks[j%len(ks)]), l3, rng, nOps, rp, ts)
				}()
			}
		}()
	}
	for j := 0; j < nRand; j++ {
		rjobs <- j
	}
	close(rjobs)
	wg.Wait()

	out.Emit(vc.M{"kind": "summary", "scheme": scheme, "behaviours": nBeh, "random": nRand, "steps": rp.Counts["steps"],
		"ops": rp.OpsSeen, "distinct_states": len(rp.States), "violations": rp.Counts["violation"],
		"mismatches": rp.Counts["mismatch"], "trace_events": trace.Count()})
}

func getenv(k, def string) string {
	if v := os.Getenv(k); v != "" {
		return v
	}
	return def
}
