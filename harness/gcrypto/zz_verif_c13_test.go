package gcrypto_test

// C13 conformance harness for gcrypto.SimpleCommonMessageSignatureProof with real ed25519 keys
// (overlaid into /repo/gcrypto by /verif/bin/check).  The scheme-independent engine is
// gcrypto/zzverifc13; this file supplies the concrete keys, signatures and corruptions.

import (
	"context"
	"testing"

	"github.com/gordian-engine/gordian/gcrypto"
	"github.com/gordian-engine/gordian/gcrypto/gcryptotest"
	c13 "github.com/gordian-engine/gordian/gcrypto/zzverifc13"
)

type c13Simple struct {
	k       int
	signers []gcrypto.Ed25519Signer // k+1: the last one is not a candidate
	keys    []gcrypto.PubKey
}

func newC13Simple(k int) c13.Adapter {
	a := &c13Simple{k: k, signers: gcryptotest.DeterministicEd25519Signers(k + 1)}
	for i := 0; i < k; i++ {
		a.keys = append(a.keys, a.signers[i].PubKey())
	}
	return a
}

func (a *c13Simple) Scheme() string              { return "simple" }
func (a *c13Simple) K() int                      { return a.k }
func (a *c13Simple) MsgBytes(msg string) []byte  { return []byte("c13/" + msg) }
func (a *c13Simple) PubKey(i int) gcrypto.PubKey { return a.signers[i].PubKey() }
func (a *c13Simple) SchemeImpl() gcrypto.CommonMessageSignatureProofScheme {
	return gcrypto.SimpleCommonMessageSignatureProofScheme{}
}

func (a *c13Simple) NewProof(msg, hash string) gcrypto.CommonMessageSignatureProof {
	p, err := gcrypto.NewSimpleCommonMessageSignatureProof(a.MsgBytes(msg), a.keys, hash)
	if err != nil {
		panic(err)
	}
	return p
}

func (a *c13Simple) sign(i int, msg string) []byte {
	s, err := a.signers[i].Sign(context.Background(), a.MsgBytes(msg))
	if err != nil {
		panic(err)
	}
	return s
}

func (a *c13Simple) ForeignSig(msg string) []byte { return a.sign(a.k, msg) }

func (a *c13Simple) AggSig(leaves []int, msg string) []byte { return a.sign(leaves[0], msg) }

func (a *c13Simple) Sig(n int, msg, corr string) []byte {
	if n < 0 || n >= a.k {
		n = 0
	}
	switch corr {
	case "ok":
		return a.sign(n, msg)
	case "othersigner":
		if a.k == 1 {
			return a.sign(a.k, msg)
		}
		return a.sign((n+1)%a.k, msg)
	case "othermsg":
		return a.sign(n, msg+"-x")
	case "bitflip":
		s := a.sign(n, msg)
		s[10] ^= 0x04
		return s
	case "garbage":
		return a.sign(n, msg)[:63]
	}
	panic("bad corr " + corr)
}

func (a *c13Simple) Forge(msg, hash string, O, B []int, bk string) gcrypto.CommonMessageSignatureProof {
	if len(B) == 0 {
		p := a.NewProof(msg, hash)
		for _, i := range O {
			if err := p.AddSignature(a.sign(i, msg), a.keys[i]); err != nil {
				panic(err)
			}
		}
		return p
	}
	bad := map[int]bool{}
	for _, b := range B {
		bad[b] = true
	}
	var es []gcrypto.VerifC13ForgeEntry
	for _, i := range O {
		sig := a.sign(i, msg)
		if bad[i] {
			if bk == "othersigner" {
				sig = a.sign(a.k, msg) // genuine signature of a key that is not the claimed one
			} else {
				sig = a.sign(i, msg+"-x")
			}
		}
		es = append(es, gcrypto.VerifC13ForgeEntry{KeyIdx: i, Sig: sig})
	}
	return gcrypto.VerifC13ForgeSimple(a.MsgBytes(msg), a.keys, hash, es)
}

func TestVerifC13Simple(t *testing.T) {
	c13.Drive("simple", newC13Simple)
}
