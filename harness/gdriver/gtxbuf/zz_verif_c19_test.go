package gtxbuf

// C19 conformance harness (overlaid into /repo/gdriver/gtxbuf by /verif/bin/check; package-internal
// so that workingState is reachable).
//
//   spec -> code : behaviours exported by TLC from TxBuf.tla ($VERIF_IN) are replayed on the REAL
//                  gtxbuf.Buffer (through its API, kernel goroutine included) and on the REAL
//                  workingState (internal fields visible).  After every step Buffered() is read and the
//                  property predicates are evaluated on the REAL outputs by re-folding the table:
//                  PendingAppliesInOrder, AppendOnlyIfApplies, RebaseKeepsExactly,
//                  RebaseReturnsRestAsInvalidated (+ BufferedSnapshotStable for the read).
//   code -> spec : what the real code did is logged ($VERIF_TRACE for TxBufTrace.tla, $VERIF_LIN for
//                  the concurrent histories searched by TxBufLin.tla).
//
// addTxFunc is table driven (tbl[s-1][tx-1] = next state, 0 = invalid, wrapped in TxInvalidError as the
// contract demands) and the deleter is the recipe documented on gtxbuf.New (map of reject values,
// report presence) -- the same as the repository's own CounterDeleter.

import (
	"context"
	"errors"
	"fmt"
	"io"
	"log/slog"
	"math/rand"
	"os"
	"runtime"
	"strconv"
	"strings"
	"sync"
	"testing"

	vc "github.com/gordian-engine/gordian/internal/verifcommon"
)

type c19Table [][]int

var errC19Invalid = errors.New("c19: table says invalid")

func (t c19Table) ap(s, tx int) int {
	if s < 1 || s > len(t) || tx < 1 || tx > len(t[s-1]) {
		return 0
	}
	return t[s-1][tx-1]
}

func (t c19Table) addTx(_ context.Context, s int, tx int) (int, error) {
	r := t.ap(s, tx)
	if r == 0 {
		return 0, TxInvalidError{Err: errC19Invalid}
	}
	return r, nil
}

// c19Deleter: "creating a map of reject values, and returning a function closing over the map,
// reporting presence of the given transaction in that map" (doc of gtxbuf.New).
func c19Deleter(_ context.Context, reject []int) func(int) bool {
	m := make(map[int]struct{}, len(reject))
	for _, r := range reject {
		m[r] = struct{}{}
	}
	return func(tx int) bool {
		_, ok := m[tx]
		return ok
	}
}

// fold applies seq in order from s; ok=false if some element does not apply.
func (t c19Table) fold(s int, seq []int) (int, bool) {
	for _, tx := range seq {
		s = t.ap(s, tx)
		if s == 0 {
			return 0, false
		}
	}
	return s, true
}

// expectRebase: the pending txs whose value was not reported applied, kept iff they still apply
// in order on nb; the rest in order.
func (t c19Table) expectRebase(p []int, nb int, applied []int) (kept, rest []int, st int) {
	am := map[int]bool{}
	for _, a := range applied {
		am[a] = true
	}
	st = nb
	kept, rest = []int{}, []int{}
	for _, tx := range p {
		if am[tx] {
			continue
		}
		if r := t.ap(st, tx); r != 0 {
			st = r
			kept = append(kept, tx)
		} else {
			rest = append(rest, tx)
		}
	}
	return
}

func c19Eq(a, b []int) bool {
	if len(a) != len(b) {
		return false
	}
	for i := range a {
		if a[i] != b[i] {
			return false
		}
	}
	return true
}

func c19Copy(a []int) []int {
	r := make([]int, len(a))
	copy(r, a)
	return r
}

func c19Has(a []int, v int) bool {
	for _, x := range a {
		if x == v {
			return true
		}
	}
	return false
}

func c19IsSubseq(sub, of []int) bool {
	i := 0
	for _, x := range of {
		if i < len(sub) && sub[i] == x {
			i++
		}
	}
	return i == len(sub)
}

func c19SameMultiset(a, b []int) bool {
	if len(a) != len(b) {
		return false
	}
	m := map[int]int{}
	for _, x := range a {
		m[x]++
	}
	for _, x := range b {
		m[x]--
		if m[x] < 0 {
			return false
		}
	}
	return true
}

// ---------------------------------------------------------------- targets

type c19Target interface {
	Name() string
	Init(s int)
	AddTx(tx int) error
	Buffered(dst []int) []int
	Rebase(nb int, applied []int) ([]int, error)
	Eff() int // state the next AddTx is applied to; -1 when not observable
	Fields() (base int, ok bool)
	Close()
}

type c19Buf struct {
	ctx    context.Context
	cancel context.CancelFunc
	b      *Buffer[int, int]
}

var c19Log = slog.New(slog.NewTextHandler(io.Discard, nil))

func newC19Buf(t c19Table) *c19Buf {
	ctx, cancel := context.WithCancel(context.Background())
	return &c19Buf{ctx: ctx, cancel: cancel, b: New[int, int](ctx, c19Log, t.addTx, c19Deleter)}
}
func (x *c19Buf) Name() string { return "Buffer" }
func (x *c19Buf) Init(s int) {
	if !x.b.Initialize(x.ctx, s) {
		panic("c19: Initialize returned false")
	}
}
func (x *c19Buf) AddTx(tx int) error       { return x.b.AddTx(x.ctx, tx) }
func (x *c19Buf) Buffered(dst []int) []int { return x.b.Buffered(x.ctx, dst) }
func (x *c19Buf) Rebase(nb int, ap []int) ([]int, error) {
	return x.b.Rebase(x.ctx, nb, ap)
}
func (x *c19Buf) Eff() int            { return -1 }
func (x *c19Buf) Fields() (int, bool) { return 0, false }
func (x *c19Buf) Close()              { x.cancel(); x.b.Wait() }

type c19WS struct {
	w *workingState[int, int]
	t c19Table
}

func newC19WS(t c19Table) *c19WS { return &c19WS{t: t} }
func (x *c19WS) Name() string    { return "workingState" }
func (x *c19WS) Init(s int) {
	// what Buffer.kernel does with the initial state
	x.w = &workingState[int, int]{BaseState: s, addTx: x.t.addTx, txDeleter: c19Deleter}
}
func (x *c19WS) AddTx(tx int) error       { return x.w.CheckAddTx(context.Background(), tx) }
func (x *c19WS) Buffered(dst []int) []int { return x.w.Buffered(dst) }
func (x *c19WS) Rebase(nb int, ap []int) ([]int, error) {
	r := x.w.Rebase(context.Background(), nb, ap)
	return r.Invalidated, r.Err
}
func (x *c19WS) Eff() int {
	if x.w.isUpdated {
		return x.w.curState
	}
	return x.w.BaseState
}
func (x *c19WS) Fields() (int, bool) { return x.w.BaseState, true }
func (x *c19WS) Close()              {}

// ---------------------------------------------------------------- behaviours and the step oracle

type c19Op struct {
	O string `json:"o"` // I(nitialize) A(ddTx) B(uffered) R(ebase)
	A int    `json:"a"` // initial state / tx / new base
	P []int  `json:"p"` // applied
	// expectations of the spec (only when the behaviour comes from TLC)
	K bool  `json:"k"` // AddTx accepted
	I []int `json:"i"` // invalidated
	E []int `json:"e"` // pending after, design (positional pruning)
	B []int `json:"b"` // pending after, code as it is (by-value pruning)
	F int   `json:"f"` // state the next AddTx applies to
}

type c19Beh struct {
	T c19Table `json:"t"`
	H []c19Op  `json:"h"`
}

type c19Run struct {
	out, trace                     *vc.Out
	behaviours, steps              int
	ops                            map[string]int
	devAsIs, devFixed              int
	mismatches, violations, panics int
	distinct                       map[uint64]struct{}
	traceEvents, traces            int
}

func newC19Run(out, trace *vc.Out) *c19Run {
	return &c19Run{out: out, trace: trace, ops: map[string]int{}, distinct: map[uint64]struct{}{}}
}

func (r *c19Run) key(t c19Table, base int, p []int, op c19Op) {
	var sb strings.Builder
	fmt.Fprint(&sb, t, base, p, op.O, op.A, op.P)
	s := sb.String()
	h := uint64(14695981039346656037)
	for i := 0; i < len(s); i++ {
		h ^= uint64(s[i])
		h *= 1099511628211
	}
	r.distinct[h] = struct{}{}
}

func (r *c19Run) viol(pred, site, class, what string, beh c19Beh, step int, src string) {
	r.violations++
	r.out.Emit(vc.M{"kind": "violation", "pred": pred, "site": site, "class": class, "what": what,
		"src": src, "step": step, "beh": c19Beh{T: beh.T, H: beh.H[:step+1]}})
}

func (r *c19Run) mism(site, what string, beh c19Beh, step int, src string) {
	r.mismatches++
	if r.mismatches <= 200 {
		r.out.Emit(vc.M{"kind": "mismatch", "site": site, "what": what, "src": src, "step": step,
			"beh": c19Beh{T: beh.T, H: beh.H[:step+1]}})
	}
}

var c19OpName = map[string]string{"I": "Initialize", "A": "AddTx", "B": "Buffered", "R": "Rebase"}

type c19Snap struct{ got, want []int }

// run drives one behaviour on one target.  Returns false if it stopped early (violation, or the
// code followed the design where the spec continued with the as-is variant).
func (r *c19Run) run(tgt c19Target, beh c19Beh, hasExp, emitTrace bool, src string) (complete bool) {
	r.behaviours++
	tbl := beh.T
	step := -1
	defer tgt.Close()
	defer func() {
		if p := recover(); p != nil {
			r.panics++
			r.out.Emit(vc.M{"kind": "panic", "site": tgt.Name(), "what": fmt.Sprint(p), "src": src,
				"step": step, "beh": beh})
			complete = false
		}
	}()
	if emitTrace {
		r.traces++
		r.trace.Emit(vc.M{"ev": "reset", "tbl": tbl})
	}
	tev := func(m vc.M) {
		if emitTrace {
			r.traceEvents++
			r.trace.Emit(m)
		}
	}
	base := 0
	var snaps []c19Snap
	pre := []int{}
	for i, op := range beh.H {
		step = i
		name := c19OpName[op.O]
		site := tgt.Name() + "." + name
		r.steps++
		r.ops[name]++
		r.key(tbl, base, pre, op)
		stop := false
		var post []int
		switch op.O {
		case "I":
			tgt.Init(op.A)
			base = op.A
			post = tgt.Buffered(nil)
			if len(post) != 0 {
				r.mism(site, fmt.Sprintf("pending %v after Initialize", post), beh, i, src)
			}
			tev(vc.M{"ev": "Initialize", "a": op.A})

		case "A":
			s, def := tbl.fold(base, pre)
			err := tgt.AddTx(op.A)
			post = tgt.Buffered(nil)
			if err != nil && !errors.As(err, new(TxInvalidError)) {
				r.mism(site, "AddTx error is not the addTxFunc error: "+err.Error(), beh, i, src)
			}
			applies := def && tbl.ap(s, op.A) != 0
			appended := c19Eq(post, append(c19Copy(pre), op.A))
			unchanged := c19Eq(post, pre)
			switch {
			case appended && !applies:
				r.viol("AppendOnlyIfApplies", site, "appended-invalid-tx", fmt.Sprintf(
					"AddTx(%d) appended although it does not apply to state %d = fold(base %d, pending %v); pending now %v",
					op.A, s, base, pre, post), beh, i, src)
				stop = true
			case !appended && !unchanged:
				r.viol("AppendOnlyIfApplies", site, "pending-corrupted", fmt.Sprintf(
					"AddTx(%d) changed pending %v into %v (neither unchanged nor appended)", op.A, pre, post), beh, i, src)
				stop = true
			case unchanged && applies:
				r.viol("PendingAppliesInOrder", site, "valid-tx-rejected", fmt.Sprintf(
					"AddTx(%d) rejected (%v) although it applies to state %d = fold(base %d, pending %v): internal current state differs from the fold",
					op.A, err, s, base, pre), beh, i, src)
				stop = true
			}
			if !stop && (err == nil) != appended {
				r.mism(site, fmt.Sprintf("AddTx(%d) err=%v but appended=%v", op.A, err, appended), beh, i, src)
			}
			if hasExp && !stop && ((err == nil) != op.K || !c19Eq(post, op.B)) {
				r.mism(site, fmt.Sprintf("AddTx(%d): spec ok=%v pending=%v, code err=%v pending=%v", op.A, op.K, op.B, err, post), beh, i, src)
			}
			tev(vc.M{"ev": "AddTx", "a": op.A, "ok": err == nil, "buf": c19Copy(post), "eff": tgt.Eff()})

		case "B":
			var dst []int
			if i%2 == 1 {
				dst = append(make([]int, 0, 16), 77)
			}
			out := tgt.Buffered(dst)
			got := out
			if len(dst) == 1 {
				if len(out) < 1 || out[0] != 77 {
					r.mism(site, fmt.Sprintf("Buffered(dst) lost the dst prefix: %v", out), beh, i, src)
					got = []int{}
				} else {
					got = out[1:]
				}
			}
			snaps = append(snaps, c19Snap{got: got, want: c19Copy(got)})
			post = tgt.Buffered(nil)
			if !c19Eq(got, pre) || !c19Eq(post, pre) {
				r.mism(site, fmt.Sprintf("Buffered read %v then %v, previous read %v", got, post, pre), beh, i, src)
			}
			if hasExp && !c19Eq(got, op.B) {
				r.mism(site, fmt.Sprintf("Buffered: spec %v code %v", op.B, got), beh, i, src)
			}
			tev(vc.M{"ev": "Buffered", "buf": c19Copy(got)})

		case "R":
			ap := c19Copy(op.P)
			var apArg []int
			if len(ap) > 0 {
				apArg = c19Copy(ap)
			}
			kept, rest, _ := tbl.expectRebase(pre, op.A, ap)
			inv, err := tgt.Rebase(op.A, apArg)
			base = op.A
			post = tgt.Buffered(nil)
			if inv == nil {
				inv = []int{}
			}
			if err != nil {
				r.mism(site, "Rebase returned error "+err.Error(), beh, i, src)
			}
			dupClass := false
			// what pruning the invalidated VALUES (instead of positions) yields
			byValue := []int{}
			for _, tx := range pre {
				if !c19Has(ap, tx) && !c19Has(rest, tx) {
					byValue = append(byValue, tx)
				}
			}
			if !c19Eq(byValue, kept) {
				// a deviating step: which variant of the spec does the code follow here?
				switch {
				case c19Eq(post, byValue):
					r.devAsIs++
				case c19Eq(post, kept):
					r.devFixed++
				}
			}
			if !c19Eq(post, kept) {
				class := "other"
				_, foldOK := tbl.fold(op.A, post)
				hasApplied := false
				for _, tx := range post {
					if c19Has(ap, tx) {
						hasApplied = true
					}
				}
				switch {
				case c19Eq(post, byValue):
					class = "invalidated-value-duplicated-in-kept"
					dupClass = true
				case hasApplied:
					class = "kept-applied-tx"
				case !foldOK:
					class = "kept-tx-that-does-not-apply"
				case c19IsSubseq(post, kept):
					class = "dropped-valid-tx"
				case c19SameMultiset(post, kept):
					class = "reordered"
				}
				r.viol("RebaseKeepsExactly", site, class, fmt.Sprintf(
					"Rebase(newBase %d, applied %v) on pending %v kept %v; exactly %v are not reported applied and still apply in order (rest %v)",
					op.A, ap, pre, post, kept, rest), beh, i, src)
				stop = true
			}
			if !c19Eq(inv, rest) {
				class := "other"
				switch {
				case c19SameMultiset(inv, rest):
					class = "order"
				case len(inv) < len(rest):
					class = "missing"
				case len(inv) > len(rest):
					class = "extra"
				}
				r.viol("RebaseReturnsRestAsInvalidated", site, class, fmt.Sprintf(
					"Rebase(newBase %d, applied %v) on pending %v returned invalidated %v; the rest is %v (kept %v)",
					op.A, ap, pre, inv, rest, kept), beh, i, src)
				stop = true
			}
			if eff := tgt.Eff(); eff != -1 && dupClass {
				if s, ok := tbl.fold(base, post); !ok || s != eff {
					r.viol("PendingAppliesInOrder", site, "invalidated-value-duplicated-in-kept", fmt.Sprintf(
						"after Rebase(newBase %d, applied %v) on pending %v: Txs %v fold to %d from the base, but curState is %d",
						op.A, ap, pre, post, s, eff), beh, i, src)
				}
			}
			if hasExp {
				switch {
				case !c19Eq(inv, op.I):
					r.mism(site, fmt.Sprintf("Rebase: spec invalidated %v code %v", op.I, inv), beh, i, src)
				case c19Eq(op.B, op.E):
					if !c19Eq(post, op.B) {
						r.mism(site, fmt.Sprintf("Rebase: spec pending %v code %v", op.B, post), beh, i, src)
					}
				case !c19Eq(op.B, byValue) || !c19Eq(op.E, kept):
					r.mism(site, fmt.Sprintf("Rebase: spec as-is %v / design %v, harness oracle by-value %v / exact %v", op.B, op.E, byValue, kept), beh, i, src)
				case c19Eq(post, op.B):
					// follows the as-is spec
				case c19Eq(post, op.E):
					stop = true // follows the design; the exported continuation assumes the as-is variant
				default:
					r.mism(site, fmt.Sprintf("Rebase: spec pending %v (as-is) / %v (design) code %v", op.B, op.E, post), beh, i, src)
				}
			}
			tev(vc.M{"ev": "Rebase", "a": op.A, "ap": ap, "inv": c19Copy(inv), "buf": c19Copy(post), "eff": tgt.Eff()})
		}

		// PendingAppliesInOrder on the real pending list (and the real curState when visible)
		{
			s, ok := tbl.fold(base, post)
			eff := tgt.Eff()
			if !ok && !stop {
				r.viol("PendingAppliesInOrder", site, "pending-does-not-apply", fmt.Sprintf(
					"after %s: pending %v does not apply in order to base %d", name, post, base), beh, i, src)
				stop = true
			} else if ok && eff != -1 && eff != s && !stop {
				r.viol("PendingAppliesInOrder", site, "cur-diverged", fmt.Sprintf(
					"after %s: pending %v folds to %d from base %d but the buffer's current state is %d", name, post, s, base, eff), beh, i, src)
				stop = true
			}
			if hasExp && !stop && eff != -1 && op.O != "B" && eff != op.F {
				r.mism(site, fmt.Sprintf("%s: spec current state %d code %d", name, op.F, eff), beh, i, src)
			}
		}
		// earlier reads must not change under the reader
		for _, sn := range snaps {
			if !c19Eq(sn.got, sn.want) {
				r.viol("BufferedSnapshotStable", tgt.Name()+".Buffered", "aliased", fmt.Sprintf(
					"a slice returned by Buffered held %v and holds %v after %s", sn.want, sn.got, name), beh, i, src)
				stop = true
				break
			}
		}
		if stop {
			return false
		}
		pre = c19Copy(post)
	}
	return true
}

// ---------------------------------------------------------------- drivers

func (r *c19Run) summary(kind string, extra vc.M) {
	m := vc.M{"kind": "summary", "driver": kind, "behaviours": r.behaviours, "steps": r.steps, "ops": r.ops,
		"dev_asis": r.devAsIs, "dev_fixed": r.devFixed, "mismatches": r.mismatches,
		"violations": r.violations, "panics": r.panics, "distinct": len(r.distinct),
		"traces": r.traces, "trace_events": r.traceEvents}
	for k, v := range extra {
		m[k] = v
	}
	r.out.Emit(m)
}

// progress marker for the parent: which input is being executed (a panic in the Buffer's kernel
// goroutine cannot be recovered; the parent attributes an abnormal exit to this line).
func c19Progress(s string) {
	if p := os.Getenv("VERIF_PROGRESS"); p != "" {
		_ = os.WriteFile(p, []byte(s), 0o644)
	}
}

// TestVerifC19Replay: spec -> code.  Every TLC behaviour on the real Buffer and the real workingState.
func TestVerifC19Replay(t *testing.T) {
	out := vc.Open("VERIF_OUT")
	defer out.Close()
	trace := vc.Open("VERIF_TRACE")
	defer trace.Close()
	r := newC19Run(out, trace)
	behs := vc.ReadNDJSON[c19Beh]("VERIF_IN")
	shard, nshards := vc.EnvInt("VERIF_SHARD", 0), vc.EnvInt("VERIF_NSHARDS", 1)
	traceEvery := vc.EnvInt("VERIF_TRACE_EVERY", 50)
	n := 0
	for idx, b := range behs {
		if idx%nshards != shard {
			continue
		}
		if n%256 == 0 {
			out.Flush()
			j, _ := jsonLine(b)
			c19Progress(j)
		}
		n++
		emit := traceEvery > 0 && n%traceEvery == 0
		r.run(newC19Buf(b.T), b, true, emit, "tlc")
		r.run(newC19WS(b.T), b, true, emit && n%(2*traceEvery) == 0, "tlc")
	}
	r.summary("replay", vc.M{"input_behaviours": n})
}

func jsonLine(b c19Beh) (string, error) {
	return fmt.Sprintf("%v", b), nil
}

func c19RandTable(rng *rand.Rand) c19Table {
	ns, nt := 2+rng.Intn(4), 2+rng.Intn(4)
	t := make(c19Table, ns)
	switch rng.Intn(5) {
	case 0: // counters: tx k adds k, invalid beyond the top state (becomes invalid after a rebase)
		for s := 1; s <= ns; s++ {
			t[s-1] = make([]int, nt)
			for x := 1; x <= nt; x++ {
				if s+x <= ns {
					t[s-1][x-1] = s + x
				}
			}
		}
	default:
		pinv := []float64{0.05, 0.2, 0.4, 0.6}[rng.Intn(4)]
		for s := 0; s < ns; s++ {
			t[s] = make([]int, nt)
			for x := 0; x < nt; x++ {
				if rng.Float64() >= pinv {
					t[s][x] = 1 + rng.Intn(ns)
				}
			}
		}
	}
	return t
}

func c19RandApplied(rng *rand.Rand, pending []int, nt int) []int {
	ap := []int{}
	switch rng.Intn(4) {
	case 0:
		return ap
	case 1: // a prefix of the pending list, as a block proposer would report
		k := rng.Intn(len(pending) + 1)
		ap = append(ap, pending[:k]...)
	default:
		for k := rng.Intn(4); k > 0; k-- {
			ap = append(ap, 1+rng.Intn(nt))
		}
	}
	return ap
}

// TestVerifC19Random: seeded random sequential driver beyond the enumerated bounds (bigger tables,
// longer sequences, applied lists with duplicates and foreign values).  Predicates are evaluated on
// the real outputs; every execution is logged for TxBufTrace.tla.
func TestVerifC19Random(t *testing.T) {
	out := vc.Open("VERIF_OUT")
	defer out.Close()
	trace := vc.Open("VERIF_TRACE")
	defer trace.Close()
	r := newC19Run(out, trace)
	rng := rand.New(rand.NewSource(int64(vc.EnvInt("VERIF_SEED", 1))*7919 + int64(vc.EnvInt("VERIF_SHARD", 0))))
	n := vc.EnvInt("VERIF_RANDOM", 2000)
	traceEvery := vc.EnvInt("VERIF_TRACE_EVERY", 4)
	for k := 0; k < n; k++ {
		tbl := c19RandTable(rng)
		ns, nt := len(tbl), len(tbl[0])
		b := c19Beh{T: tbl, H: []c19Op{{O: "I", A: 1 + rng.Intn(ns)}}}
		// the model of the driver only needs to know the pending values to bias applied lists
		base, pend := b.H[0].A, []int{}
		for L := 5 + rng.Intn(30); L > 0; L-- {
			switch x := rng.Intn(100); {
			case x < 55:
				tx := 1 + rng.Intn(nt)
				b.H = append(b.H, c19Op{O: "A", A: tx})
				if s, ok := tbl.fold(base, pend); ok && tbl.ap(s, tx) != 0 {
					pend = append(pend, tx)
				}
			case x < 80:
				nb := 1 + rng.Intn(ns)
				ap := c19RandApplied(rng, pend, nt)
				b.H = append(b.H, c19Op{O: "R", A: nb, P: ap})
				pend, _, _ = tbl.expectRebase(pend, nb, ap)
				base = nb
			default:
				b.H = append(b.H, c19Op{O: "B"})
			}
		}
		if k%64 == 0 {
			out.Flush()
			c19Progress(fmt.Sprintf("%v", b))
		}
		emit := traceEvery > 0 && k%traceEvery == 0
		r.run(newC19Buf(tbl), b, false, emit, "random")
		r.run(newC19WS(tbl), b, false, emit && k%(2*traceEvery) == 0, "random")
	}
	r.summary("random", nil)
}

// ---------------------------------------------------------------- concurrent histories

type c19LinEv struct {
	Ev  string   `json:"ev"`
	ID  int      `json:"id,omitempty"`
	Op  string   `json:"op,omitempty"`
	A   int      `json:"a"`
	Ap  []int    `json:"ap"`
	Ok  bool     `json:"ok"`
	Out []int    `json:"out"`
	Tbl c19Table `json:"tbl,omitempty"`
	G   int      `json:"g"`
}

type c19Hist struct {
	mu       sync.Mutex
	evs      []*c19LinEv
	open     int
	overlaps int
}

func (h *c19Hist) call(g int, op string, a int, ap []int) int {
	h.mu.Lock()
	defer h.mu.Unlock()
	if h.open > 0 {
		h.overlaps++
	}
	h.open++
	h.evs = append(h.evs, &c19LinEv{Ev: "call", Op: op, A: a, Ap: c19Copy(ap), Out: []int{}, G: g})
	return len(h.evs) - 1
}

func (h *c19Hist) ret(idx int, ok bool, out []int) {
	h.mu.Lock()
	defer h.mu.Unlock()
	h.open--
	h.evs[idx].Ok = ok
	h.evs[idx].Out = c19Copy(out)
	h.evs = append(h.evs, &c19LinEv{Ev: "ret", ID: idx, Ap: []int{}, Out: []int{}})
}

// TestVerifC19Conc: goroutines mix AddTx / Buffered / Rebase on one real Buffer; call and return are
// logged under one global sequence (call before, ret after); TxBufLin.tla searches the linearization.
func TestVerifC19Conc(t *testing.T) {
	out := vc.Open("VERIF_OUT")
	defer out.Close()
	lin := vc.Open("VERIF_LIN")
	defer lin.Close()
	rng := rand.New(rand.NewSource(int64(vc.EnvInt("VERIF_SEED", 1))*104729 + 17))
	n := vc.EnvInt("VERIF_HISTORIES", 200)
	line := 0 // lines written so far
	totalCalls, totalOverlaps, withOverlap := 0, 0, 0
	ops := map[string]int{}
	for k := 0; k < n; k++ {
		tbl := c19RandTable(rng)
		ns, nt := len(tbl), len(tbl[0])
		init := 1 + rng.Intn(ns)
		tgt := newC19Buf(tbl)
		tgt.Init(init)
		h := &c19Hist{}
		G := 2 + rng.Intn(3)
		type planned struct {
			op string
			a  int
			ap []int
		}
		plans := make([][]planned, G)
		for g := range plans {
			for L := 2 + rng.Intn(4); L > 0; L-- {
				switch x := rng.Intn(100); {
				case x < 50:
					plans[g] = append(plans[g], planned{op: "AddTx", a: 1 + rng.Intn(nt)})
				case x < 75:
					var ap []int
					for j := rng.Intn(3); j > 0; j-- {
						ap = append(ap, 1+rng.Intn(nt))
					}
					plans[g] = append(plans[g], planned{op: "Rebase", a: 1 + rng.Intn(ns), ap: ap})
				default:
					plans[g] = append(plans[g], planned{op: "Buffered"})
				}
			}
		}
		out.Flush()
		lin.Flush()
		c19Progress(fmt.Sprintf("conc tbl=%v init=%d plans=%v", tbl, init, plans))
		start := make(chan struct{})
		var wg sync.WaitGroup
		// half of the histories run in lock step (all goroutines issue their k-th call together),
		// which makes the calls overlap; the other half runs freely
		lockstep := k%2 == 0
		maxLen := 0
		for _, pl := range plans {
			if len(pl) > maxLen {
				maxLen = len(pl)
			}
		}
		// two barriers per round: every goroutine logs its call, THEN all of them make the call, so
		// the order in which the kernel serves them is not known to the log
		rounds := make([]sync.WaitGroup, maxLen)
		logged := make([]sync.WaitGroup, maxLen)
		for i := range rounds {
			rounds[i].Add(G)
			logged[i].Add(G)
		}
		do := func(g int, p planned, afterLog func()) {
			idx := h.call(g, p.op, p.a, p.ap)
			afterLog()
			switch p.op {
			case "AddTx":
				err := tgt.AddTx(p.a)
				h.ret(idx, err == nil, nil)
			case "Buffered":
				h.ret(idx, true, tgt.Buffered(nil))
			case "Rebase":
				inv, err := tgt.Rebase(p.a, p.ap)
				h.ret(idx, err == nil, inv)
			}
		}
		for g := 0; g < G; g++ {
			wg.Add(1)
			go func(g int) {
				defer wg.Done()
				<-start
				for i := 0; i < maxLen; i++ {
					if lockstep {
						rounds[i].Done()
						rounds[i].Wait()
					}
					barrier := func() {
						if lockstep {
							logged[i].Done()
							logged[i].Wait()
						}
					}
					if i < len(plans[g]) {
						do(g, plans[g][i], barrier)
					} else {
						barrier()
					}
					if !lockstep && g%2 == 1 {
						runtime.Gosched()
					}
				}
			}(g)
		}
		close(start)
		wg.Wait()
		do(G, planned{op: "Buffered"}, func() {}) // quiescent read
		tgt.Close()

		lin.Emit(c19LinEv{Ev: "reset", Tbl: tbl, A: init, Ap: []int{}, Out: []int{}})
		line++
		baseLine := line
		for _, e := range h.evs {
			if e.Ev == "call" {
				e.ID = baseLine + indexOf(h.evs, e) + 1
				totalCalls++
				ops[e.Op]++
			} else {
				e.ID = baseLine + e.ID + 1
			}
			lin.Emit(e)
			line++
		}
		totalOverlaps += h.overlaps
		if h.overlaps > 0 {
			withOverlap++
		}
	}
	out.Emit(vc.M{"kind": "summary", "driver": "conc", "histories": n, "calls": totalCalls, "lines": line,
		"overlapping_calls": totalOverlaps, "histories_with_overlap": withOverlap, "ops": ops})
}

func indexOf(evs []*c19LinEv, e *c19LinEv) int {
	for i, x := range evs {
		if x == e {
			return i
		}
	}
	return -1
}

var _ = strconv.Itoa
